#!/venv/bin/python
"""tools/mutsweep.py <phase> ... : a mechanical single-site mutation sweep over praatio, as a yardstick beside the sub-agents' changes.

  mutsweep.py survivors <out.jsonl> [jobs]      enumerate single-token / single-statement mutants of /repo/praatio, run the
                                               repository's test-suite on each (scratch clones under /tmp/ms), keep those with
                                               all tests green ("survivors")
  mutsweep.py judge <survivors.jsonl> <out.jsonl> [jobs] [sample]
                                               run the quick checks of the properties mapped to the mutated file on every
                                               survivor (or on a random sample of that size): caught / not caught

Nothing under /repo is touched: every mutant lives in a scratch clone that is reset afterwards.  The sweep is not part of any
registered check; its result is summarised in DESIGN.md (9.6)."""
import io, json, os, random, re, subprocess, sys, tokenize
from concurrent.futures import ThreadPoolExecutor

REPO = "/repo"
ROOT = os.path.dirname(os.path.dirname(os.path.abspath(__file__)))
FILES = ["praatio/utilities/textgrid_io.py", "praatio/utilities/utils.py", "praatio/utilities/my_math.py", "praatio/utilities/constants.py",
         "praatio/data_classes/interval_tier.py", "praatio/data_classes/point_tier.py", "praatio/data_classes/textgrid_tier.py",
         "praatio/data_classes/textgrid.py", "praatio/data_classes/klattgrid.py", "praatio/data_classes/data_point.py",
         "praatio/audio.py", "praatio/praatio_scripts.py", "praatio/klattgrid.py", "praatio/data_points.py", "praatio/textgrid.py",
         "praatio/pitch_and_intensity.py"]
# which properties' checks look at code in a file (a superset is fine: a check that does not reach the code simply stays silent)
MAP = {
    "praatio/utilities/textgrid_io.py": ["C01", "C02", "C03", "C04", "C13", "C17"],
    "praatio/textgrid.py": ["C01", "C03", "C05"],
    "praatio/utilities/utils.py": ["C06", "C07", "C10", "C11", "C15", "C16", "C17", "C18", "C09", "C01", "C03"],
    "praatio/utilities/my_math.py": ["C20", "C01", "C02", "C04", "C15"],
    "praatio/utilities/constants.py": ["C05", "C11", "C15", "C04", "C10", "C07"],
    "praatio/data_classes/interval_tier.py": ["C05", "C06", "C07", "C08", "C09", "C10", "C11", "C13", "C14", "C15", "C12"],
    "praatio/data_classes/point_tier.py": ["C05", "C06", "C07", "C08", "C09", "C10", "C11", "C13", "C14", "C15", "C12"],
    "praatio/data_classes/textgrid_tier.py": ["C05", "C09", "C10", "C13", "C14", "C15", "C11", "C06"],
    "praatio/data_classes/textgrid.py": ["C12", "C13", "C09", "C06", "C07", "C08", "C10", "C15", "C01", "C02", "C04"],
    "praatio/data_classes/klattgrid.py": ["C19"],
    "praatio/klattgrid.py": ["C19"],
    "praatio/data_classes/data_point.py": ["C19"],
    "praatio/data_points.py": ["C19"],
    "praatio/audio.py": ["C16", "C17", "C18"],
    "praatio/praatio_scripts.py": ["C14", "C17", "C18"],
    "praatio/pitch_and_intensity.py": ["C20"],
}
OPS = {"<": ["<="], "<=": ["<"], ">": [">="], ">=": [">"], "==": ["!="], "!=": ["=="], "+": ["-"], "-": ["+"], "*": ["/"], "/": ["*"]}
NAMES = {"and": ["or"], "or": ["and"], "True": ["False"], "False": ["True"], "min": ["max"], "max": ["min"]}
NUMS = {"0": ["1"], "1": ["0", "2"], "0.0": ["1.0"], "2": ["1"]}


def mutants_of(path):
    src = open(os.path.join(REPO, path)).read()
    lines = src.splitlines(True)
    out = []
    in_doc = set()
    toks = list(tokenize.generate_tokens(io.StringIO(src).readline))
    for i, t in enumerate(toks):
        if t.type == tokenize.STRING and (i == 0 or toks[i - 1].type in (tokenize.NEWLINE, tokenize.NL, tokenize.INDENT, tokenize.DEDENT)):
            for ln in range(t.start[0], t.end[0] + 1):
                in_doc.add(ln)
    for i, t in enumerate(toks):
        if t.start[0] in in_doc or t.start[0] != t.end[0]:
            continue
        reps = []
        if t.type == tokenize.OP and t.string in OPS:
            prev = toks[i - 1] if i else None
            if t.string in "+-" and (prev is None or prev.type == tokenize.OP and prev.string not in (")", "]")):
                continue  # unary
            if t.string in "*/" and prev is not None and prev.type == tokenize.OP and prev.string in ("(", ",", "*"):
                continue  # *args
            reps = OPS[t.string]
        elif t.type == tokenize.NAME and t.string in NAMES:
            reps = NAMES[t.string]
        elif t.type == tokenize.NAME and t.string == "not":
            reps = [""]
        elif t.type == tokenize.NUMBER and t.string in NUMS:
            reps = NUMS[t.string]
        for r in reps:
            ln = t.start[0] - 1
            new = lines[ln][: t.start[1]] + r + lines[ln][t.end[1]:]
            out.append({"file": path, "line": t.start[0], "kind": "token", "was": t.string, "now": r, "old": lines[ln], "new": new})
    # statement deletion (simple one-line statements inside functions)
    for ln, l in enumerate(lines):
        s = l.strip()
        if (ln + 1) in in_doc or not l.startswith("        ") and not l.startswith("    "):
            continue
        if re.match(r"^(return\b|continue$|break$|[A-Za-z_][\w\.\[\]\"' ,]*\s*(=|\+=|-=)\s*[^=]|[A-Za-z_][\w\.]*\(.*\)$)", s) and not s.endswith((",", "(", "[", "{", "\\")) and s.count("(") == s.count(")"):
            ind = l[: len(l) - len(l.lstrip())]
            if s.startswith("return") and s != "return":
                continue  # changing what is returned is what the token mutants do; a bare pass would return None: too blunt
            out.append({"file": path, "line": ln + 1, "kind": "delete", "was": s, "now": "pass", "old": l, "new": ind + "pass\n"})
    return out


def sh(cmd, cwd=None, timeout=900, env=None):
    try:
        return subprocess.run(cmd, shell=True, cwd=cwd, capture_output=True, text=True, timeout=timeout, env=env)
    except subprocess.TimeoutExpired:
        return subprocess.CompletedProcess(cmd, 124, "", "timeout")


def apply(clone, m):
    p = os.path.join(clone, m["file"])
    lines = open(p).read().splitlines(True)
    if lines[m["line"] - 1] != m["old"]:
        return False
    lines[m["line"] - 1] = m["new"]
    open(p, "w").write("".join(lines))
    return True


def survivors(out, jobs):
    allm = []
    for f in FILES:
        allm.extend(mutants_of(f))
    random.Random(1).shuffle(allm)
    sh("rm -rf /tmp/ms; mkdir -p /tmp/ms")
    for k in range(jobs):
        sh("git clone -q %s /tmp/ms/clone%d" % (REPO, k))
    fd = open(out, "w")

    def work(args):
        k, chunk = args
        clone = "/tmp/ms/clone%d" % k
        res = []
        for m in chunk:
            if not apply(clone, m):
                continue
            r = sh("/venv/bin/python -m pytest -x -q -p no:cacheprovider --timeout=60 2>&1 | tail -1", cwd=clone, timeout=300, env=dict(os.environ, PYTHONPATH=clone, PYTHONDONTWRITEBYTECODE="1"))
            sh("git checkout -- . && git clean -fdq", cwd=clone)
            m2 = dict(m, tests=r.stdout.strip()[-60:])
            m2["survived"] = "367 passed" in r.stdout
            res.append(m2)
        return res

    chunks = [(k, allm[k::jobs]) for k in range(jobs)]
    with ThreadPoolExecutor(jobs) as ex:
        for res in ex.map(work, chunks):
            for m in res:
                fd.write(json.dumps(m) + "\n")
    fd.close()
    sh("rm -rf /tmp/ms")
    print("mutants", len(allm))


def judge(inp, out, jobs, sample):
    ms = [json.loads(l) for l in open(inp) if l.strip()]
    ms = [m for m in ms if m.get("survived")]
    if sample and sample < len(ms):
        ms = random.Random(2).sample(ms, sample)
    sh("rm -rf /tmp/mj; mkdir -p /tmp/mj")
    for k in range(jobs):
        sh("git clone -q %s /tmp/mj/clone%d" % (REPO, k))
    sh("rsync -a --exclude .git --exclude .work --exclude replays %s/ /tmp/mj/verif/" % ROOT)
    fd = open(out, "w")

    def work(args):
        k, chunk = args
        clone = "/tmp/mj/clone%d" % k
        res = []
        for m in chunk:
            if not apply(clone, m):
                continue
            env = dict(os.environ, PRAATIO_REPO=clone, PYTHONPATH=clone, VERIF_EVIDENCE_DIR="/tmp/mj/ev%d" % k, VERIF_REPLAY_DIR="/tmp/mj/rp%d" % k, PYTHONDONTWRITEBYTECODE="1")
            verdict = {}
            for prop in MAP.get(m["file"], []):
                r = sh("/venv/bin/python -B /tmp/mj/verif/check.py %s --tier quick 2>&1 | grep -v '^KNOWN'" % prop, env=env, timeout=1500)
                rc = re.search(r"-> exit (\d)\s*$", r.stdout, re.M)
                verdict[prop] = int(rc.group(1)) if rc else 9
                if verdict[prop] == 1:
                    mon = re.search(r"^  monitor=.*$", r.stdout, re.M)
                    m["first"] = mon.group(0)[:220] if mon else ""
                    break  # caught: one check is enough
                if verdict[prop] == 2:
                    inc = re.search(r"^INCONCLUSIVE.*$", r.stdout, re.M)
                    m.setdefault("inconclusive", []).append((prop, inc.group(0)[:300] if inc else ""))
            sh("git checkout -- . && git clean -fdq", cwd=clone)
            sh("rm -rf /tmp/mj/rp%d" % k)
            m["checks"] = verdict
            m["caught"] = 1 in verdict.values()
            res.append(m)
            fd.write(json.dumps(m) + "\n")
            fd.flush()
        return res

    chunks = [(k, ms[k::jobs]) for k in range(jobs)]
    with ThreadPoolExecutor(jobs) as ex:
        list(ex.map(work, chunks))
    fd.close()
    sh("rm -rf /tmp/mj")


if __name__ == "__main__":
    if sys.argv[1] == "survivors":
        survivors(sys.argv[2], int(sys.argv[3]) if len(sys.argv) > 3 else 6)
    else:
        judge(sys.argv[2], sys.argv[3], int(sys.argv[4]) if len(sys.argv) > 4 else 3, int(sys.argv[5]) if len(sys.argv) > 5 else 0)

#!/bin/bash
# tools/matrix.sh <outfile> : every seeded change x every quick check, on a scratch clone of /repo (never touches /repo)
out=${1:-/tmp/matrix.jsonl}
: > "$out"
export PRAATIO_REPO=/tmp/repo_copy VERIF_EVIDENCE_DIR=/tmp/matrix_ev VERIF_REPLAY_DIR=/tmp/matrix_replays
for d in /verif/seeded/C*-m*; do
  /verif/tools/eval_seeded.py "$d" --all >> "$out" 2>&1
done
echo DONE >> "$out"

#!/bin/bash
# tools/matrix.sh <outfile> [jobs] : every seeded change x every quick check, on scratch clones of /repo (never touches /repo).
# Clones live under /tmp/mx and are removed at the end.
out=${1:-/tmp/matrix.jsonl}
jobs=${2:-4}
rm -rf /tmp/mx; mkdir -p /tmp/mx
for k in $(seq 1 $jobs); do git clone -q /repo /tmp/mx/clone$k; done
# a frozen copy of the machinery, so that the matrix is one consistent version even while /verif is being edited
rsync -a --exclude .git --exclude .work --exclude replays /verif/ /tmp/mx/verif/
ls -d /tmp/mx/verif/seeded/C*-m* > /tmp/mx/list
for k in $(seq 1 $jobs); do
  (
    i=0
    while read d; do
      i=$((i+1))
      if [ $((i % jobs)) -eq $((k % jobs)) ]; then
        PRAATIO_REPO=/tmp/mx/clone$k VERIF_EVIDENCE_DIR=/tmp/mx/ev$k VERIF_REPLAY_DIR=/tmp/mx/replays$k /tmp/mx/verif/tools/eval_seeded.py "$d" --all 2>/dev/null | grep '^{' >> /tmp/mx/out$k
      fi
    done < /tmp/mx/list
  ) &
done
wait
cat /tmp/mx/out* > "$out"
echo DONE >> "$out"
rm -rf /tmp/mx

#!/venv/bin/python
"""Regenerates MANIFEST.json from the check modules present in checks/ and tools/manifest_meta.json."""
import importlib, json, sys, subprocess
from pathlib import Path
ROOT = Path(__file__).resolve().parent.parent
sys.path.insert(0, str(ROOT)); sys.path.insert(0, "/repo")
meta = json.loads((ROOT / "tools" / "manifest_meta.json").read_text())
checks = []
na = []
for i in range(1, 21):
    pid = "C%02d" % i
    path = ROOT / "checks" / ("%s.py" % pid.lower())
    m = meta["checks"].get(pid)
    if not path.exists() or m is None:
        na.append({"property_id": pid, "reason": meta.get("not_applicable", {}).get(pid, "check not built yet in this round (runtime monitoring applies; see DESIGN.md section 4)")})
        continue
    checks.append({
        "property_id": pid,
        "quick_cmd": "/venv/bin/python -B /verif/check.py %s --tier quick" % pid,
        "thorough_cmd": "/venv/bin/python -B /verif/check.py %s --tier thorough" % pid,
        "evidence_file": "/verif/evidence/%s.json" % pid,
        "replay_cmd_template": "/venv/bin/python -B /verif/check.py %s --replay {path}" % pid,
        "engine": "vmon",
        "level_claimed": {"category": "exploration", "text": m["level_text"], "design_ref": "DESIGN.md 4 (%s)" % pid},
        "level_note": m["level_note"],
        "technique": m["technique"],
    })
hooks = meta["hooks"]
man = {
    "version": 1,
    "setup_cmd": "/venv/bin/python -B /verif/check.py --selftest",
    "hooks": hooks,
    "engines": [{"name": "vmon", "path": "/verif/vmon", "serves_properties": [c["property_id"] for c in checks],
                 "kind_free_text": "runtime monitors (wrappers attached to the real praatio callables at import time) + independent reference models in /verif/models + enumerated/seeded workloads; pure stdlib"}],
    "checks": checks,
    "notes": meta["notes"],
    "not_applicable": na,
}
(ROOT / "MANIFEST.json").write_text(json.dumps(man, indent=1) + "\n")
print("MANIFEST.json: %d checks, %d not_applicable" % (len(checks), len(na)))

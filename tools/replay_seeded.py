#!/venv/bin/python
"""tools/replay_seeded.py <seeded dir> <Cxx> : with the change applied to $PRAATIO_REPO run the quick check, then replay every
replay file it wrote (a) with the change still applied -> must report 'violated', (b) on the restored tree -> must report 'held'.
Prints one summary line.  The repository is always restored."""
import glob, os, subprocess, sys, shutil
d, prop = os.path.abspath(sys.argv[1]), sys.argv[2]
REPO = os.environ.get("PRAATIO_REPO", "/repo")
VROOT = os.path.dirname(os.path.dirname(os.path.abspath(__file__)))
rdir = "/tmp/replay_seeded_%d" % os.getpid()
env = dict(os.environ, PYTHONPATH=REPO, PRAATIO_REPO=REPO, VERIF_REPLAY_DIR=rdir, VERIF_EVIDENCE_DIR=rdir + "_ev", PYTHONDONTWRITEBYTECODE="1")
def sh(cmd):
    return subprocess.run(cmd, shell=True, capture_output=True, text=True, env=env)
assert sh("git -C %s status --porcelain" % REPO).stdout.strip() == ""
assert sh("git -C %s apply %s/patch.diff" % (REPO, d)).returncode == 0
res = {"violated_with_change": 0, "not_violated_with_change": 0, "held_on_clean": 0, "inconclusive_on_clean": 0, "violated_on_clean": 0}
CAP = int(os.environ.get("REPLAY_CAP", "8"))  # replay files looked at per change (they are alike within a group)
try:
    sh("/venv/bin/python -B %s/check.py %s" % (VROOT, prop))
    files = sorted(glob.glob(os.path.join(rdir, prop, "*.json")))[:CAP]
    for f in files:
        out = sh("/venv/bin/python -B %s/check.py %s --replay %s" % (VROOT, prop, f)).stdout
        res["violated_with_change" if "REPLAY violated" in out else "not_violated_with_change"] += 1
finally:
    sh("git -C %s checkout -- . && git -C %s clean -fdq -- praatio tests examples" % (REPO, REPO))
for f in files:
    out = sh("/venv/bin/python -B %s/check.py %s --replay %s" % (VROOT, prop, f)).stdout
    res["held_on_clean" if "REPLAY held" in out else ("violated_on_clean" if "REPLAY violated" in out else "inconclusive_on_clean")] += 1
shutil.rmtree(rdir, ignore_errors=True); shutil.rmtree(rdir + "_ev", ignore_errors=True)
print(os.path.basename(d), prop, res)

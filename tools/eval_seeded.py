#!/venv/bin/python
"""tools/eval_seeded.py <seed dir> [--props Cxx,Cyy | --all] [--tier quick]
<seed dir> holds patch.diff and demo.py (as produced by a sub-agent or kept under /verif/seeded/<id>/).
Applies the patch to the repository ($PRAATIO_REPO, default /repo), confirms the repository tests still pass and the
demonstration fails, runs the named checks, ALWAYS restores the repository, confirms the demonstration passes on the
restored tree.  Prints one JSON line."""
import json, os, subprocess, sys
d = os.path.abspath(sys.argv[1])
args = sys.argv[2:]
tier = "quick"
props = None
for i, a in enumerate(args):
    if a == "--props":
        props = args[i + 1].split(",")
    if a == "--all":
        props = ["C%02d" % k for k in range(1, 21)]
    if a == "--tier":
        tier = args[i + 1]
meta = {}
if os.path.exists(os.path.join(d, "meta.json")):
    meta = json.load(open(os.path.join(d, "meta.json")))
if props is None:
    props = [meta["property"]] if meta.get("property") else [os.path.basename(os.path.dirname(d))]
REPO = os.environ.get("PRAATIO_REPO", "/repo")
VROOT = os.path.dirname(os.path.dirname(os.path.abspath(__file__)))
env = dict(os.environ, PYTHONPATH=REPO, PYTHONDONTWRITEBYTECODE="1", PRAATIO_REPO=REPO)
def sh(cmd, **kw):
    return subprocess.run(cmd, shell=True, capture_output=True, text=True, env=env, **kw)
assert sh("git -C %s status --porcelain" % REPO).stdout.strip() == "", "%s is not clean" % REPO
res = {"dir": d, "props": props}
r = sh("git -C %s apply %s" % (REPO, os.path.join(d, "patch.diff")))
if r.returncode:
    print(json.dumps(dict(res, error="patch does not apply: " + r.stderr[-300:])))
    sys.exit(2)
try:
    t = sh("cd %s && /venv/bin/python -m pytest -q -p no:cacheprovider 2>&1 | tail -1" % REPO)
    res["repo_tests"] = t.stdout.strip()
    dm = sh("cd %s && /venv/bin/python %s" % (REPO, os.path.join(d, "demo.py")), timeout=600)
    res["demo_with_patch_rc"] = dm.returncode
    res["checks"] = {}
    for p in props:
        c = subprocess.run(["/venv/bin/python", "-B", os.path.join(VROOT, "check.py"), p, "--tier", tier], capture_output=True, text=True, env=env)
        lines = [l for l in c.stdout.splitlines() if not l.startswith("KNOWN-FINDING")]
        first = next((l for l in lines if l.startswith("  monitor")), "")
        res["checks"][p] = {"rc": c.returncode, "first": first.strip()[:300], "summary": lines[-1][:200] if lines else ""}
finally:
    sh("git -C %s checkout -- . && git -C %s clean -fdq -- praatio tests examples" % (REPO, REPO))
    if "VERIF_REPLAY_DIR" not in os.environ:
        sh("rm -rf %s/replays" % VROOT)
dm2 = sh("cd %s && /venv/bin/python %s" % (REPO, os.path.join(d, "demo.py")), timeout=600)
res["demo_clean_rc"] = dm2.returncode
res["repo_clean"] = sh("git -C %s status --porcelain" % REPO).stdout.strip() == ""
print(json.dumps(res))

#!/venv/bin/python
"""tools/mkmeta.py [results.jsonl ...] : (re)writes seeded/<id>/meta.json and seeded/MATRIX.md from notes.md and one or more result files
(tools/matrix.sh: every change x all 20 quick checks; a "diagonal" run: every change x the quick check of its own property).  For a
change that appears in several files the checks are united, later files winning."""
import glob, json, os, re, sys
ROOT = os.path.dirname(os.path.dirname(os.path.abspath(__file__)))
matrix = {}
for fn in sys.argv[1:]:
    if not os.path.exists(fn):
        continue
    for l in open(fn):
        try:
            r = json.loads(l)
        except Exception:
            continue
        sid_ = os.path.basename(r["dir"])
        if re.match(r"^m\d+$", sid_):  # evaluated from a delivery directory .../Cxx/mN
            sid_ = os.path.basename(os.path.dirname(r["dir"])) + "-" + sid_
        if sid_ in matrix and "checks" in r:
            r["checks"] = dict(matrix[sid_].get("checks", {}), **r["checks"])
        matrix[sid_] = r
rows = []
overrides = json.load(open(os.path.join(ROOT, "seeded", "overrides.json"))) if os.path.exists(os.path.join(ROOT, "seeded", "overrides.json")) else {}
for d in sorted(glob.glob(os.path.join(ROOT, "seeded", "C*-m*"))):
    sid = os.path.basename(d)
    prop = sid.split("-")[0]
    notes = open(os.path.join(d, "notes.md")).read().strip()
    lines = [x.strip() for x in notes.splitlines() if x.strip()]
    title = re.sub(r"^#+\s*", "", lines[0]) if lines else sid
    needs = " ".join(lines[1:])[:1400]
    files = sorted(set(re.findall(r"^\+\+\+ b/(\S+)", open(os.path.join(d, "patch.diff")).read(), flags=re.M)))
    meta = {"id": sid, "property": prop, "origin": "independent sub-agent, round %d (given only the property record and a scratch worktree)" % ((int(sid.split("-m")[1]) + 1) // 2),
            "title": title, "files_changed": files, "needs_to_manifest": needs,
            "confirmed": "repository tests: 367 passed with the change; demo.py exits 1 with the change and 0 without (tools/eval_seeded.py)"}
    meta.update(overrides.get(sid, {}))
    r = matrix.get(sid)
    if r:
        meta["repo_tests_with_change"] = r.get("repo_tests")
        meta["demo_rc_with_change"] = r.get("demo_with_patch_rc")
        meta["demo_rc_without_change"] = r.get("demo_clean_rc")
        meta["quick_checks_run"] = sorted(r.get("checks", {}))
        meta["caught_by_quick"] = sorted(p for p, c in r.get("checks", {}).items() if c["rc"] == 1)
        meta["inconclusive_quick"] = sorted(p for p, c in r.get("checks", {}).items() if c["rc"] == 2)
        own = r.get("checks", {}).get(prop, {})
        meta["own_property_first_violation"] = own.get("first", "")[:300]
        rows.append((sid, prop, meta["caught_by_quick"], meta["inconclusive_quick"], title, len(meta["quick_checks_run"])))
    json.dump(meta, open(os.path.join(d, "meta.json"), "w"), indent=1)
if rows:
    with open(os.path.join(ROOT, "seeded", "MATRIX.md"), "w") as fd:
        fd.write("# Seeded changes x quick checks\n\nEach row: a seeded change (kept under seeded/<id>/), the quick checks that reported a VIOLATION with the change applied "
                 "(on a scratch clone of the repository; column 'run' says how many of the 20 quick checks were run for that change - 20 = the full row, 1 = only the check of the targeted property), and whether the check of the targeted property is among them.\n\n")
        fd.write("| change | targets | run | caught by (quick tier) | own property | what it is |\n|---|---|---|---|---|---|\n")
        for sid, prop, caught, inc, title, nrun in rows:
            fd.write("| %s | %s | %d | %s | %s | %s |\n" % (sid, prop, nrun, " ".join(caught) or "-", "yes" if prop in caught else ("n/a: " + overrides[sid]["status"] if sid in overrides else "NO"), title[:110].replace("|", "/")))
        live = [r for r in rows if r[0] not in overrides]
        own = sum(1 for r in live if r[1] in r[2])
        anyc = sum(1 for r in live if r[2])
        fd.write("\n%d changes that break their property; %d caught by the check of their own property, %d by at least one check. %d further change(s) are set apart in seeded/overrides.json with the reason (made behaviour-preserving by a later repair of the repository, or needing inputs outside the property's stated domain); they are not counted.\n" % (len(live), own, anyc, len(rows) - len(live)))
print("meta for", len(glob.glob(os.path.join(ROOT, "seeded", "C*-m*"))), "changes; matrix rows", len(rows))

#!/venv/bin/python
"""tools/mkmeta.py [matrix.jsonl] : (re)writes seeded/<id>/meta.json and seeded/MATRIX.md from notes.md and a matrix run."""
import glob, json, os, re, sys
ROOT = os.path.dirname(os.path.dirname(os.path.abspath(__file__)))
matrix = {}
if len(sys.argv) > 1 and os.path.exists(sys.argv[1]):
    for l in open(sys.argv[1]):
        try:
            r = json.loads(l)
        except Exception:
            continue
        matrix[os.path.basename(r["dir"])] = r
rows = []
overrides = json.load(open(os.path.join(ROOT, "seeded", "overrides.json"))) if os.path.exists(os.path.join(ROOT, "seeded", "overrides.json")) else {}
for d in sorted(glob.glob(os.path.join(ROOT, "seeded", "C*-m*"))):
    sid = os.path.basename(d)
    prop = sid.split("-")[0]
    notes = open(os.path.join(d, "notes.md")).read().strip()
    lines = [x.strip() for x in notes.splitlines() if x.strip()]
    title = re.sub(r"^#+\s*", "", lines[0]) if lines else sid
    needs = " ".join(lines[1:])[:1400]
    files = sorted(set(re.findall(r"^\+\+\+ b/(\S+)", open(os.path.join(d, "patch.diff")).read(), flags=re.M)))
    meta = {"id": sid, "property": prop, "origin": "independent sub-agent, round %d (given only the property record and a scratch worktree)" % ((int(sid[-1]) + 1) // 2),
            "title": title, "files_changed": files, "needs_to_manifest": needs,
            "confirmed": "repository tests: 367 passed with the change; demo.py exits 1 with the change and 0 without (tools/eval_seeded.py)"}
    meta.update(overrides.get(sid, {}))
    r = matrix.get(sid)
    if r:
        meta["repo_tests_with_change"] = r.get("repo_tests")
        meta["demo_rc_with_change"] = r.get("demo_with_patch_rc")
        meta["demo_rc_without_change"] = r.get("demo_clean_rc")
        meta["quick_checks_run"] = sorted(r.get("checks", {}))
        meta["caught_by_quick"] = sorted(p for p, c in r.get("checks", {}).items() if c["rc"] == 1)
        meta["inconclusive_quick"] = sorted(p for p, c in r.get("checks", {}).items() if c["rc"] == 2)
        own = r.get("checks", {}).get(prop, {})
        meta["own_property_first_violation"] = own.get("first", "")[:300]
        rows.append((sid, prop, meta["caught_by_quick"], meta["inconclusive_quick"], title))
    json.dump(meta, open(os.path.join(d, "meta.json"), "w"), indent=1)
if rows:
    with open(os.path.join(ROOT, "seeded", "MATRIX.md"), "w") as fd:
        fd.write("# Seeded changes x quick checks\n\nEach row: a seeded change (kept under seeded/<id>/), the quick checks that reported a VIOLATION with the change applied "
                 "(all 20 quick checks were run for every change on a scratch clone of the repository), and whether the check of the targeted property is among them.\n\n")
        fd.write("| change | targets | caught by (quick tier) | own property | what it is |\n|---|---|---|---|---|\n")
        for sid, prop, caught, inc, title in rows:
            fd.write("| %s | %s | %s | %s | %s |\n" % (sid, prop, " ".join(caught) or "-", "yes" if prop in caught else ("n/a: " + overrides[sid]["status"] if sid in overrides else "NO"), title[:110].replace("|", "/")))
        live = [r for r in rows if r[0] not in overrides]
        own = sum(1 for r in live if r[1] in r[2])
        anyc = sum(1 for r in live if r[2])
        fd.write("\n%d changes that break their property; %d caught by the check of their own property, %d by at least one check. %d further change(s) are set apart in seeded/overrides.json with the reason (made behaviour-preserving by a later repair of the repository, or needing inputs outside the property's stated domain); they are not counted.\n" % (len(live), own, anyc, len(rows) - len(live)))
print("meta for", len(glob.glob(os.path.join(ROOT, "seeded", "C*-m*"))), "changes; matrix rows", len(rows))

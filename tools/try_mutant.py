#!/venv/bin/python
"""Scratch mutation probe: tools/try_mutant.py <repo-relative file> <old> <new> <Cxx>... [--tests]
Applies the textual change to /repo, optionally runs the repository tests, runs the quick
checks named, and ALWAYS restores the file (git checkout)."""
import subprocess, sys
args = [a for a in sys.argv[1:] if a != "--tests"]
run_tests = "--tests" in sys.argv
f, old, new, props = args[0], args[1], args[2], args[3:]
path = "/repo/" + f
s = open(path).read()
if s.count(old) < 1:
    sys.exit("pattern not found in %s" % f)
open(path, "w").write(s.replace(old, new, 1))
try:
    if run_tests:
        r = subprocess.run("cd /repo && /venv/bin/python -m pytest -q -p no:cacheprovider -x 2>&1 | tail -1", shell=True, capture_output=True, text=True)
        print("repo tests:", r.stdout.strip())
    for p in props:
        r = subprocess.run(["/venv/bin/python", "-B", "/verif/check.py", p, "--tier", "quick"], capture_output=True, text=True)
        lines = r.stdout.strip().splitlines()
        print("%s rc=%d  %s" % (p, r.returncode, lines[-1] if lines else ""))
        for l in lines[:4]:
            if l.startswith(("VIOLATION", "  monitor", "INCONCLUSIVE")):
                print("    " + l[:300])
finally:
    subprocess.run(["git", "-C", "/repo", "checkout", "--", f])
    subprocess.run("rm -rf /verif/replays", shell=True)

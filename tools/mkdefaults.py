#!/venv/bin/python
"""tools/mkdefaults.py : writes models/api_defaults.json - the default values of the parameters of praatio's public callables as the
pinned tree documents them (signature defaults that are None / bool / int / float / str).  checks.common.call leaves out trailing
arguments that equal the *documented* default on every seventh call; taking "documented" from this frozen table instead of from the
live signature is what makes a changed default visible (the caller who omits the argument gets the new value, the monitor judges
against the old one).  Regenerate only when the repository's documented defaults change on purpose."""
import importlib, inspect, json, os, sys

ROOT = os.path.dirname(os.path.dirname(os.path.abspath(__file__)))
REPO = os.environ.get("PRAATIO_REPO", "/repo")
sys.path.insert(0, REPO)
MODS = ["praatio.textgrid", "praatio.audio", "praatio.praatio_scripts", "praatio.klattgrid", "praatio.data_points", "praatio.pitch_and_intensity",
        "praatio.utilities.utils", "praatio.utilities.my_math", "praatio.utilities.textgrid_io", "praatio.data_classes.textgrid",
        "praatio.data_classes.interval_tier", "praatio.data_classes.point_tier", "praatio.data_classes.textgrid_tier",
        "praatio.data_classes.klattgrid", "praatio.data_classes.data_point"]
table = {}


def add(obj):
    try:
        ps = list(inspect.signature(obj).parameters.values())
    except (TypeError, ValueError):
        return
    if not all(p.kind == p.POSITIONAL_OR_KEYWORD for p in ps):
        return
    row = []
    for p in ps:
        d = p.default
        row.append({"empty": True} if d is inspect.Parameter.empty else ({"v": d} if d is None or type(d) in (bool, int, float, str) else {"other": True}))
    table["%s.%s" % (obj.__module__, obj.__qualname__)] = row


for m in MODS:
    mod = importlib.import_module(m)
    for name, obj in vars(mod).items():
        if inspect.isfunction(obj) and obj.__module__ == m:
            add(obj)
        elif inspect.isclass(obj) and obj.__module__ == m:
            for n2, o2 in vars(obj).items():
                if inspect.isfunction(o2):
                    add(o2)
json.dump(table, open(os.path.join(ROOT, "models", "api_defaults.json"), "w"), indent=0, sort_keys=True)
print(len(table), "callables")

"""Independent reference models of the tier operations (no praatio import).

Entries are plain tuples of Python numbers and labels.  Comparisons between
floats are exact in Python, so every *decision* (inside / outside / overlap)
is exact; every *arithmetic* result is computed in ``fractions.Fraction`` so
it is the real-number result, and is compared with the observed float under the
tolerance policy of DESIGN.md 3.3 (exact on the dyadic grid).

Conventions: interval entry = (start, end, label); point entry = (time, label).
A value the operation must not touch is returned as the *same float object
value* (verbatim); a computed value is returned as a Fraction.
"""
import math
from fractions import Fraction as F


# ----------------------------------------------------------------------
# comparison helpers
# ----------------------------------------------------------------------
def maxabs(*groups):
    m = 0.0
    for g in groups:
        if isinstance(g, (int, float, F)):
            g = (g,)
        for x in g:
            if isinstance(x, (int, float, F)):
                ax = abs(float(x))
                if ax > m:
                    m = ax
    return m


def num_close(observed, expected, scale, ulps=4):
    """observed float vs expected (float verbatim -> exact, Fraction -> within
    ``ulps`` units in the last place of ``scale``, the largest magnitude that
    took part in the computation)."""
    if isinstance(expected, F):
        try:
            if not math.isfinite(observed):
                return False
        except TypeError:
            return False
        tol = F(math.ulp(scale if scale > 0 else 1.0)) * ulps
        return abs(F(observed) - expected) <= tol
    return observed == expected


def entries_close(observed, expected, scale, ulps=4):
    """Entry lists agree: same length, labels identical, numbers per num_close.
    Returns None when they agree, else a short description."""
    if len(observed) != len(expected):
        return "entry count %d, expected %d" % (len(observed), len(expected))
    for i, (o, e) in enumerate(zip(observed, expected)):
        if len(o) != len(e):
            return "entry %d has arity %d, expected %d" % (i, len(o), len(e))
        if o[-1] != e[-1]:
            return "entry %d label %s, expected %s" % (i, ascii(o[-1]), ascii(e[-1]))
        for j in range(len(e) - 1):
            if not num_close(o[j], e[j], scale, ulps):
                return "entry %d field %d is %r, expected %s" % (i, j, o[j], fmt(e[j]))
    return None


def representable(expected_entries):
    """False when the real-number result cannot be held in floats as a
    well-formed list: some interval's endpoints round to the same float (an
    interval shorter than the float resolution at its new position).  Such
    cases are outside what any float implementation can deliver and are
    skipped, not judged."""
    for e in expected_entries:
        if len(e) == 3 and not (float(e[0]) < float(e[1])):
            return False
    return True


def fmt(x):
    if isinstance(x, F):
        return "%r (exact %s)" % (float(x), x)
    return repr(x)


def fmt_entries(es):
    return [[float(v) if isinstance(v, F) else v for v in e] for e in es]


# ----------------------------------------------------------------------
# crop
# ----------------------------------------------------------------------
def crop(kind, entries, lo, hi, a, b, mode, rebase):
    """Returns (entries, span_lo, span_hi).  Requires a < b."""
    if kind == "I":
        kept = []
        for s, e, l in entries:
            if e <= a or s >= b:  # no positive-length overlap with the window
                continue
            if mode == "strict":
                if s >= a and e <= b:
                    kept.append((s, e, l))
            elif mode == "lax":
                kept.append((s, e, l))
            else:
                kept.append((s if s >= a else a, e if e <= b else b, l))
        starts = [k[0] for k in kept]
        ends = [k[1] for k in kept]
    else:
        kept = [(t, l) for t, l in entries if a <= t <= b]
        starts = ends = [k[0] for k in kept]
    if not rebase:
        return kept, min([a] + starts), max([b] + ends)
    shift = min([a] + starts) if kind == "I" else a
    fs = F(shift)
    if kind == "I":
        out = [(F(s) - fs, F(e) - fs, l) for s, e, l in kept]
        ends2 = [o[1] for o in out]
    else:
        out = [(F(t) - fs, l) for t, l in kept]
        ends2 = [o[0] for o in out]
    return out, F(0), max([F(b) - F(a)] + ends2)


# ----------------------------------------------------------------------
# eraseRegion
# ----------------------------------------------------------------------
class Collision(Exception):
    pass


def erase(kind, entries, lo, hi, a, b, mode, shrink):
    """Returns (list_of_acceptable_entry_lists, span_lo, span_hi).

    One entry list is acceptable: a straddling interval comes out as one interval, two *different* same-labelled entries that meet
    at the seam after shrinking stay two (D8 as revised in DESIGN 9.3)."""
    d = F(b) - F(a)
    if kind == "P":
        kept = [(t, l) for t, l in entries if not (a <= t <= b)]
        if shrink:
            kept = [(t, l) if t < a else (F(t) - d, l) for t, l in kept]
            return [kept], lo, F(hi) - d
        return [kept], lo, hi
    overlapping = [(s, e, l) for s, e, l in entries if e > a and s < b]
    if mode == "error" and overlapping:
        raise Collision()
    out = []
    seam_candidates = []
    for s, e, l in entries:
        if not (e > a and s < b):
            out.append(("v", s, e, l))
            continue
        if mode == "categorical":
            continue
        if s < a and e > b:
            out.append(("straddle", s, e, l))
            continue
        if s < a:
            out.append(("v", s, a, l))
        if e > b:
            out.append(("v", b, e, l))
    if not shrink:
        res = []
        for tag, s, e, l in out:
            if tag == "straddle":
                res.append((s, a, l))
                res.append((b, e, l))
            else:
                res.append((s, e, l))
        return [res], lo, hi
    res = []
    for tag, s, e, l in out:
        if tag == "straddle":
            res.append((s, F(e) - d, l))
        elif e <= a:
            res.append((s, e, l))
        else:  # starts at or after b
            res.append((F(s) - d if s != b else F(a), F(e) - d, l))
    # two *different* entries that come to meet at the seam stay two entries, also when they carry the same label: only the two
    # pieces of one straddling interval come out as one (the annotation outside the region is unchanged)
    alts = [res]
    return alts, lo, F(hi) - d


# ----------------------------------------------------------------------
# insertSpace
# ----------------------------------------------------------------------
def insert_space(kind, entries, lo, hi, s0, d, mode):
    fd = F(d)
    if kind == "P":
        return [(t, l) if t <= s0 else (F(t) + fd, l) for t, l in entries], lo, F(hi) + fd
    out = []
    for s, e, l in entries:
        if e <= s0:
            out.append((s, e, l))
        elif s >= s0:
            out.append((F(s) + fd, F(e) + fd, l))
        else:  # straddles
            if mode == "stretch":
                out.append((s, F(e) + fd, l))
            elif mode == "split":
                out.append((s, s0, l))
                out.append((F(s0) + fd, F(e) + fd, l))
            elif mode == "no_change":
                out.append((s, e, l))
            else:
                raise Collision()
    return out, lo, F(hi) + fd


# ----------------------------------------------------------------------
# editTimestamps / append
# ----------------------------------------------------------------------
def shift(kind, entries, lo, hi, off):
    """Returns (entries, span_lo, span_hi, left_span) -- left_span is True when
    some moved entry (before clipping at zero) lies outside [lo, hi]."""
    fo = F(off)
    out = []
    left = False
    if kind == "I":
        for s, e, l in entries:
            ns, ne = F(s) + fo, F(e) + fo
            if ns < F(lo) or ne > F(hi):
                left = True
            if ne <= 0:
                continue
            if ns < 0:
                ns = F(0)
            out.append((ns, ne, l))
        starts = [o[0] for o in out]
        ends = [o[1] for o in out]
    else:
        for t, l in entries:
            nt = F(t) + fo
            if nt < F(lo) or nt > F(hi):
                left = True
            if nt < 0:
                continue
            out.append((nt, l))
        starts = ends = [o[0] for o in out]
    return out, min([F(lo)] + starts), max([F(hi)] + ends), left


def append(kind, a_entries, a_lo, a_hi, b_entries, b_hi):
    fo = F(a_hi)
    if kind == "I":
        moved = [(F(s) + fo, F(e) + fo, l) for s, e, l in b_entries]
    else:
        moved = [(F(t) + fo, l) for t, l in b_entries]
    return list(a_entries) + moved, a_lo, F(a_hi) + F(b_hi)


# ----------------------------------------------------------------------
# label-at-time functions (for compositions and set algebra)
# ----------------------------------------------------------------------
def elementary_points(*entry_lists):
    pts = set()
    for es in entry_lists:
        for e in es:
            pts.add(F(e[0]))
            pts.add(F(e[1]))
    return sorted(pts)


def label_at(entries, t):
    """labels of all interval entries containing time t in their interior"""
    return [l for s, e, l in entries if F(s) < t < F(e)]


def labelled_measure(entries):
    return sum((F(e) - F(s) for s, e, _ in entries), F(0))


# ----------------------------------------------------------------------
# set operations (all results are built from existing boundary floats: exact)
# ----------------------------------------------------------------------
def overlaps(x, y):
    return min(x[1], y[1]) > max(x[0], y[0])


def difference(a_entries, b_entries):
    out = []
    for s, e, l in a_entries:
        cur = s
        for bs, be, _ in b_entries:  # b sorted, disjoint
            if be <= cur or bs >= e:
                continue
            if bs > cur:
                out.append((cur, bs, l))
            cur = max(cur, be)
            if cur >= e:
                break
        if cur < e:
            out.append((cur, e, l))
    return out


def intersection(a_entries, b_entries, demarcator="-"):
    out = []
    for s, e, l in a_entries:
        for bs, be, bl in b_entries:
            lo, hi = max(s, bs), min(e, be)
            if lo < hi:
                out.append((lo, hi, "%s%s%s" % (l, demarcator, bl)))
    out.sort()
    return out


def merge_labels(a_entries, b_entries, demarcator=","):
    out = []
    for s, e, l in a_entries:
        subs = [bl for bs, be, bl in b_entries if min(e, be) > max(s, bs)]
        if subs:
            out.append((s, e, "%s(%s)" % (l, demarcator.join(subs))))
    return out


def union_intervals(a_entries, b_entries):
    """Connected components of positive-length overlap between A and B entries.
    Returns list of (start, end, [member (start, end, label, origin), ...] in start order)."""
    items = [(s, e, l, "A") for s, e, l in a_entries] + [(s, e, l, "B") for s, e, l in b_entries]
    n = len(items)
    parent = list(range(n))

    def find(i):
        while parent[i] != i:
            parent[i] = parent[parent[i]]
            i = parent[i]
        return i

    for i in range(n):
        for j in range(i + 1, n):
            if items[i][3] != items[j][3] and overlaps(items[i], items[j]):
                parent[find(i)] = find(j)
    comps = {}
    for i in range(n):
        comps.setdefault(find(i), []).append(items[i])
    out = []
    for members in comps.values():
        members.sort(key=lambda m: (m[0], m[1], m[2]))
        out.append((min(m[0] for m in members), max(m[1] for m in members), members))
    out.sort(key=lambda c: (c[0], c[1]))
    return out


def union_label_ok(observed, members, sep="-"):
    """observed label vs. members joined in start order; members with equal start may swap (D10)."""
    exp = [m[2] for m in members]
    if observed == sep.join(exp):
        return True
    if any(sep in x or x == "" for x in exp):
        # ambiguous tokenisation: also accept the other order of an equal-start pair, spelled out
        alts = _equal_start_permutations(members)
        return any(observed == sep.join(a) for a in alts)
    toks = observed.split(sep)
    if len(toks) != len(exp):
        return False
    i = 0
    while i < len(members):
        j = i + 1
        while j < len(members) and members[j][0] == members[i][0]:
            j += 1
        if sorted(toks[i:j]) != sorted(exp[i:j]):
            return False
        i = j
    return True


def _equal_start_permutations(members):
    import itertools

    groups = []
    i = 0
    while i < len(members):
        j = i + 1
        while j < len(members) and members[j][0] == members[i][0]:
            j += 1
        groups.append([m[2] for m in members[i:j]])
        i = j
    res = [[]]
    for g in groups:
        res = [r + list(p) for r in res for p in itertools.permutations(g)]
    return res[:64]


def union_points(a_entries, b_entries, sep="-"):
    out = {}
    order = []
    for t, l in a_entries:
        out[t] = [l]
        order.append(t)
    for t, l in b_entries:
        if t in out:
            out[t].append(l)
        else:
            out[t] = [l]
            order.append(t)
    return [(t, sep.join(out[t])) for t in sorted(order)]

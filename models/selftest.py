"""Self-tests of the independent models on hand-written examples and on the
repository's Praat-written fixtures (run by `check.py --selftest`)."""
from fractions import Fraction as F


def run(repo):
    n = 0
    from models import tiers as M

    ents = [(0.0, 1.0, "a"), (1.0, 2.0, "b"), (3.0, 4.0, "c")]
    assert M.crop("I", ents, 0, 5, 0.5, 3.5, "strict", False)[0] == [(1.0, 2.0, "b")]
    assert M.crop("I", ents, 0, 5, 0.5, 3.5, "lax", False) == (ents, 0.0, 4.0)
    assert M.crop("I", ents, 0, 5, 0.5, 3.5, "truncated", True)[0] == [(F(0), F(1, 2), "a"), (F(1, 2), F(3, 2), "b"), (F(5, 2), F(3), "c")]
    assert M.crop("P", [(1.0, "x"), (2.0, "y")], 0, 5, 1.0, 1.5, "lax", True) == ([(F(0), "x")], F(0), F(1, 2))
    n += 4
    alts, lo, hi = M.erase("I", ents, 0, 5, 0.5, 1.5, "truncate", True)
    assert alts[0] == [(0.0, 0.5, "a"), (F(1, 2), F(1), "b"), (F(2), F(3), "c")] and hi == 4
    alts, lo, hi = M.erase("I", [(0.0, 3.0, "a")], 0, 5, 1.0, 2.0, "truncate", True)
    assert alts == [[(0.0, F(2), "a")]]
    n += 2
    out, lo, hi = M.insert_space("I", ents, 0, 5, 0.5, 1.0, "split")
    assert out[:2] == [(0.0, 0.5, "a"), (F(3, 2), F(2), "a")] and hi == 6
    n += 1
    from models import selftest_more

    n += selftest_more.run(repo)
    return n

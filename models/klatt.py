"""Independent KlattGrid / point-object writers and the positional number-stream reader (no praatio import).

A KlattGrid file is an "ooTextFile": Praat reads it type-directed and positionally -- the section names
('pitch?', 'formants [1]:') are comments; what the file *encodes* is the ordered stream of numbers and
flags.  number_stream() extracts that stream with the spec scanner of models.praat_text.
"""
import re

from models.praat_text import Scanner, SpecError, render_number

POINT_TIERS_1 = ["pitch", "flutter", "voicingAmplitude", "doublePulsing", "openPhase", "collisionPhase", "power1", "power2", "spectralTilt",
                 "aspirationAmplitude", "breathinessAmplitude"]
NULL_TIERS = ("phonation", "vocalTract", "coupling", "frication")


def number_stream(text):
    """-> (strings, [("n", float) | ("f", flag), ...]) in file order (one pass: a word starting with a digit or
    sign is a number, '<...>' a flag, '"..."' a string, '!' starts a comment line, every other word is a comment)"""
    from models.praat_text import NUMBER_RE, WS

    sc = Scanner(text)
    strings = []
    out = []
    t, n = text, len(text)
    while sc.i < n:
        c = t[sc.i]
        if c in WS:
            sc.i += 1
        elif c == "!":
            sc._skip_line()
        elif c == '"':
            sc.i += 1
            strings.append(sc._read_string_body())
        elif c == "<":
            k = t.find(">", sc.i)
            if k < 0:
                raise SpecError("unterminated flag")
            out.append(("f", t[sc.i + 1:k]))
            sc.i = k + 1
        elif (c.isdigit() and c.isascii()) or c in "+-":
            k = sc.i
            sc._skip_word()
            m = NUMBER_RE.match(t[k:sc.i])
            if not m:
                raise SpecError("word %r starts like a number but is not one" % t[k:sc.i])
            out.append(("n", float(m.group(0))))
        else:
            sc._skip_word()
    return strings, out


def section_names(text):
    return re.findall(r"^\s*([A-Za-z_0-9]+)\? <exists>", text, flags=re.M)


def _pts(L, pts, ind, n, sp):
    L.append("%spoints: size = %d%s" % (ind, len(pts), sp))
    for i, (t, v) in enumerate(pts):
        L.append("%spoints [%d]:" % (ind, i + 1))
        L.append("%s    number = %s%s" % (ind, n(t), sp))
        L.append("%s    value = %s%s" % (ind, n(v), sp))


def write_klattgrid(spec, trailing_blank=True, style="plain"):
    """spec = {"xmin","xmax","points": {tierName: [(t,v)...]}, "oral": [[formant pts]...], "oral_bw": [[...]...],
               "fric": K2 formants, "fric_pts": optional, "gain": pts}
    Layout follows Praat's KlattGrid text format as in the repository's reference file."""
    sp = " " if trailing_blank else ""
    lo, hi = spec["xmin"], spec["xmax"]

    def n(x):
        return render_number(x, style if not float(x).is_integer() else "int")

    L = ['File type = "ooTextFile"', 'Object class = "KlattGrid"', "", "xmin = %s%s" % (n(lo), sp), "xmax = %s%s" % (n(hi), sp)]

    def head(name):
        L.append("%s? <exists>%s" % (name, sp))
        L.append("xmin = %s%s" % (n(lo), sp))
        L.append("xmax = %s%s" % (n(hi), sp))

    def ptier(name):
        head(name)
        _pts(L, spec["points"].get(name, []), "", n, sp)

    def sub(kind, lists, key=None):
        # spec["spans"][key][k] = (xmin, xmax) of sub-tier k when it differs from the grid's own span
        spans = (spec.get("spans") or {}).get(key) or []
        L.append("%s: size = %d%s" % (kind, len(lists), sp))
        for k, pts in enumerate(lists):
            slo, shi = spans[k] if k < len(spans) and spans[k] else (lo, hi)
            L.append("%s [%d]:" % (kind, k + 1))
            L.append("    xmin = %s%s" % (n(slo), sp))
            L.append("    xmax = %s%s" % (n(shi), sp))
            _pts(L, pts, "    ", n, sp)

    head("phonation")
    for name in POINT_TIERS_1:
        ptier(name)
    head("vocalTract")
    head("oral_formants")
    sub("formants", spec["oral"], "oral")
    sub("bandwidths", spec["oral_bw"], "oral_bw")
    head("nasal_formants")
    sub("formants", [spec.get("nasal", [])])
    sub("bandwidths", [[]])
    head("nasal_antiformants")
    sub("formants", [[]])
    sub("bandwidths", [[]])
    sub("oral_formants_amplitudes", [[] for _ in spec["oral"]])
    sub("nasal_formants_amplitudes", [[]])
    head("coupling")
    head("tracheal_formants")
    sub("formants", [[]])
    sub("bandwidths", [[]])
    head("tracheal_antiformants")
    sub("formants", [[]])
    sub("bandwidths", [[]])
    sub("tracheal_formants_amplitudes", [[]])
    head("delta_formants")
    sub("formants", [spec.get("delta", [])])
    sub("bandwidths", [[]])
    head("frication")
    ptier("fricationAmplitude")
    head("frication_formants")
    sub("formants", spec["fric"], "fric")
    sub("bandwidths", spec["fric_bw"], "fric_bw")
    sub("frication_formants_amplitudes", [[] for _ in spec["fric"]])
    ptier("bypass")
    ptier("gain")
    return "\n".join(L) + "\n"


def expected_stream(spec):
    """the number/flag stream write_klattgrid(spec) encodes"""
    lo, hi = spec["xmin"], spec["xmax"]
    out = [("n", lo), ("n", hi)]

    def head():
        out.extend([("f", "exists"), ("n", lo), ("n", hi)])

    def pts(p):
        out.append(("n", len(p)))
        for t, v in p:
            out.extend([("n", t), ("n", v)])

    def ptier(name):
        head()
        pts(spec["points"].get(name, []))

    def sub(lists, key=None):
        spans = (spec.get("spans") or {}).get(key) or []
        out.append(("n", len(lists)))
        for k, p in enumerate(lists):
            slo, shi = spans[k] if k < len(spans) and spans[k] else (lo, hi)
            out.extend([("n", slo), ("n", shi)])
            pts(p)

    head()
    for name in POINT_TIERS_1:
        ptier(name)
    head()
    head()
    sub(spec["oral"], "oral")
    sub(spec["oral_bw"], "oral_bw")
    head()
    sub([spec.get("nasal", [])])
    sub([[]])
    head()
    sub([[]])
    sub([[]])
    sub([[] for _ in spec["oral"]])
    sub([[]])
    head()
    head()
    sub([[]])
    sub([[]])
    head()
    sub([[]])
    sub([[]])
    sub([[]])
    head()
    sub([spec.get("delta", [])])
    sub([[]])
    head()
    ptier("fricationAmplitude")
    head()
    sub(spec["fric"], "fric")
    sub(spec["fric_bw"], "fric_bw")
    sub([[] for _ in spec["fric"]])
    ptier("bypass")
    ptier("gain")
    return out


# ---------------- point objects -----------------------------------------------------
def write_point_object(klass, lo, hi, pts, long_form, style="plain", trailing_blank=True):
    sp = " " if trailing_blank else ""

    def n(x):
        return render_number(x, style if not float(x).is_integer() else "int")

    L = ['File type = "ooTextFile"', 'Object class = "%s"' % klass, ""]
    if long_form:
        L += ["xmin = %s%s" % (n(lo), sp), "xmax = %s%s" % (n(hi), sp)]
        if klass == "PointProcess":
            L.append("nt = %d%s" % (len(pts), sp))
            L.append("t []: ")
            for i, p in enumerate(pts):
                L.append("    t [%d] = %s%s" % (i + 1, n(p[0]), sp))
        else:
            L.append("points: size = %d%s" % (len(pts), sp))
            for i, p in enumerate(pts):
                L.append("points [%d]:" % (i + 1))
                L.append("    number = %s%s" % (n(p[0]), sp))
                L.append("    value = %s%s" % (n(p[1]), sp))
    else:
        L += [n(lo), n(hi), "%d" % len(pts)]
        for p in pts:
            for v in p:
                L.append(n(v))
    return "\n".join(L) + "\n"


def read_point_object(text):
    """-> (class, xmin, xmax, [tuple...]) by the type-directed rules; width 1 for PointProcess else 2"""
    sc = Scanner(text)
    ftype = sc.get_string()
    klass = sc.get_string()
    if not ftype.startswith("ooTextFile"):
        raise SpecError("file type %r" % ftype)
    lo, _ = sc.get_number()
    hi, _ = sc.get_number()
    cnt, _ = sc.get_number()
    if cnt != int(cnt) or cnt < 0:
        raise SpecError("count %r" % cnt)
    w = 1 if klass == "PointProcess" else 2
    pts = []
    for _ in range(int(cnt)):
        pts.append(tuple(sc.get_number()[0] for _k in range(w)))
    if sc.remaining_tokens():
        raise SpecError("items after the declared number of points")
    return klass, lo, hi, pts

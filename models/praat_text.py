"""Independent reader and writers for Praat "ooTextFile" TextGrid documents and
for the two JSON schemas of praatio's README.  Must not import praatio.

Reader.  Written from Praat's documented reading rules (manual page "TextGrid
file formats"; the behaviour of melder_readtext): a text file is read
*type-directed* -- the reader knows whether it wants a string, a number or a
flag next:

  * string  : skip characters up to the next double quote (a '!' outside a
              string starts a comment to the end of the line); the string runs
              to the first double quote that is not doubled; "" denotes ".
  * number  : skip whitespace-separated words until one *starts* with a digit,
              '+' or '-'; skipped words that start with '"' are strings (skipped
              as such), with '<' flags, with '!' comments to end of line; every
              other word is a comment in its entirety (so `[1]:` is no number).
  * flag    : skip to the next '<' (skipping strings and '!' comments), read to '>'.

The long ("xmin = 0") form is therefore just the short form plus comments, and
ELAN's punctuation variant needs no special case.

Writers.  Produce long / short / ELAN-style long text from plain data with a
choice of number renderings, line ends and encodings (used by C03), so the
content a file encodes is known by construction.
"""
import json
import re
from decimal import Decimal

WS = " \t\n\r\x0b\x0c"
NUMBER_RE = re.compile(r"[-+]?(?:\d+\.?\d*|\.\d+)(?:[eE][-+]?\d+)?")


class SpecError(Exception):
    pass


class Scanner:
    def __init__(self, text):
        self.t = text
        self.i = 0
        self.n = len(text)

    def _skip_line(self):
        j = self.t.find("\n", self.i)
        self.i = self.n if j < 0 else j + 1

    def _read_string_body(self):
        """self.i is just after the opening quote; returns the decoded string"""
        out = []
        t, n = self.t, self.n
        i = self.i
        while True:
            j = t.find('"', i)
            if j < 0:
                raise SpecError("unterminated string")
            out.append(t[i:j])
            if j + 1 < n and t[j + 1] == '"':
                out.append('"')
                i = j + 2
                continue
            self.i = j + 1
            return "".join(out)

    def get_string(self):
        t = self.t
        while self.i < self.n:
            c = t[self.i]
            if c == '"':
                self.i += 1
                return self._read_string_body()
            if c == "!":
                self._skip_line()
                continue
            self.i += 1
        raise SpecError("string expected, end of text found")

    def _skip_word(self):
        while self.i < self.n and self.t[self.i] not in WS:
            self.i += 1

    def get_number(self):
        t = self.t
        while self.i < self.n:
            c = t[self.i]
            if c in WS:
                self.i += 1
                continue
            if c.isdigit() and c.isascii() or c in "+-":
                j = self.i
                self._skip_word()
                raw = t[j:self.i]
                m = NUMBER_RE.match(raw)
                if not m:
                    raise SpecError("word %r starts like a number but is not one" % raw)
                return float(m.group(0)), raw
            if c == "!":
                self._skip_line()
                continue
            if c == '"':
                self.i += 1
                self._read_string_body()
                continue
            if c == "<":
                j = t.find(">", self.i)
                if j < 0:
                    raise SpecError("unterminated flag")
                self.i = j + 1
                continue
            self._skip_word()
        raise SpecError("number expected, end of text found")

    def get_flag(self):
        t = self.t
        while self.i < self.n:
            c = t[self.i]
            if c == "<":
                j = t.find(">", self.i)
                if j < 0:
                    raise SpecError("unterminated flag")
                flag = t[self.i + 1:j]
                self.i = j + 1
                return flag
            if c == "!":
                self._skip_line()
                continue
            if c == '"':
                self.i += 1
                self._read_string_body()
                continue
            self.i += 1
        raise SpecError("flag expected, end of text found")

    def remaining_tokens(self):
        """count of strings / numbers / flags left after the current position"""
        save = self.i
        count = 0
        t = self.t
        while self.i < self.n:
            c = t[self.i]
            if c in WS:
                self.i += 1
            elif c == "!":
                self._skip_line()
            elif c == '"':
                self.i += 1
                try:
                    self._read_string_body()
                except SpecError:
                    count += 1
                    break
                count += 1
            elif c == "<":
                j = t.find(">", self.i)
                self.i = self.n if j < 0 else j + 1
                count += 1
            elif (c.isdigit() and c.isascii()) or c in "+-":
                self._skip_word()
                count += 1
            else:
                self._skip_word()
        self.i = save
        return count


def _count(x, what):
    if x < 0 or x != int(x):
        raise SpecError("declared %s %r is not a count" % (what, x))
    return int(x)


def read_textgrid(text):
    """Decode a TextGrid text document.  Returns
    {"xmin","xmax","tiers":[{"class","name","xmin","xmax","entries":[...]}], "raw_numbers": [...]}
    and requires that the document holds exactly the declared number of items."""
    if text.startswith("﻿"):
        text = text[1:]
    sc = Scanner(text)
    ftype = sc.get_string()
    if ftype not in ("ooTextFile", "ooTextFile short"):
        raise SpecError("file type %r" % ftype)
    klass = sc.get_string()
    if klass != "TextGrid":
        raise SpecError("object class %r" % klass)
    raws = []

    def num():
        v, raw = sc.get_number()
        raws.append(raw)
        return v

    xmin, xmax = num(), num()
    flag = sc.get_flag()
    tiers = []
    if flag == "exists":
        ntiers = _count(num(), "tier count")
        for _ in range(ntiers):
            tclass = sc.get_string()
            if tclass not in ("IntervalTier", "TextTier"):
                raise SpecError("tier class %r" % tclass)
            name = sc.get_string()
            tmin, tmax = num(), num()
            n = _count(num(), "entry count")
            entries = []
            for _k in range(n):
                if tclass == "IntervalTier":
                    a, b = num(), num()
                    entries.append((a, b, sc.get_string()))
                else:
                    a = num()
                    entries.append((a, sc.get_string()))
            tiers.append({"class": tclass, "name": name, "xmin": tmin, "xmax": tmax, "entries": entries})
    elif flag != "absent":
        raise SpecError("tiers? flag <%s>" % flag)
    left = sc.remaining_tokens()
    if left:
        raise SpecError("%d unexpected item(s) after the last declared entry (a declared size is too small)" % left)
    return {"xmin": xmin, "xmax": xmax, "tiers": tiers, "raw_numbers": raws}


# ----------------------------------------------------------------------
# JSON schemas of the README
# ----------------------------------------------------------------------
def _is_num(x):
    return isinstance(x, (int, float)) and not isinstance(x, bool)


def _check_entries(tclass, entries):
    if not isinstance(entries, list):
        raise SpecError("entries is not a list")
    out = []
    for e in entries:
        if not isinstance(e, list):
            raise SpecError("entry %r is not a list" % (e,))
        if tclass == "IntervalTier":
            if len(e) != 3 or not _is_num(e[0]) or not _is_num(e[1]) or not isinstance(e[2], str):
                raise SpecError("interval entry %r is not [start, end, label]" % (e,))
        else:
            if len(e) != 2 or not _is_num(e[0]) or not isinstance(e[1], str):
                raise SpecError("point entry %r is not [time, label]" % (e,))
        out.append(tuple(e))
    return out


def read_json(text):
    """Decode either README schema into the same structure as read_textgrid.  Plain 'json' tiers get the
    textgrid's span ("json_plain": True marks that the schema cannot carry tier spans)."""
    try:
        d = json.loads(text)
    except ValueError as e:
        raise SpecError("not JSON: %s" % e)
    if not isinstance(d, dict):
        raise SpecError("top level is not an object")
    if set(d.keys()) == {"start", "end", "tiers"}:
        if not (_is_num(d["start"]) and _is_num(d["end"])) or not isinstance(d["tiers"], dict):
            raise SpecError("json: start/end/tiers have wrong types")
        tiers = []
        for name, t in d["tiers"].items():
            if not isinstance(t, dict) or set(t.keys()) != {"type", "entries"} or t["type"] not in ("IntervalTier", "TextTier"):
                raise SpecError("json: tier %r is not {type, entries}" % name)
            tiers.append({"class": t["type"], "name": name, "xmin": d["start"], "xmax": d["end"], "entries": _check_entries(t["type"], t["entries"])})
        return {"xmin": d["start"], "xmax": d["end"], "tiers": tiers, "json_plain": True}
    if set(d.keys()) == {"xmin", "xmax", "tiers"}:
        if not (_is_num(d["xmin"]) and _is_num(d["xmax"])) or not isinstance(d["tiers"], list):
            raise SpecError("textgrid_json: xmin/xmax/tiers have wrong types")
        tiers = []
        for t in d["tiers"]:
            if not isinstance(t, dict) or set(t.keys()) != {"class", "name", "xmin", "xmax", "entries"}:
                raise SpecError("textgrid_json: tier keys %r" % (sorted(t.keys()) if isinstance(t, dict) else t,))
            if t["class"] not in ("IntervalTier", "TextTier") or not isinstance(t["name"], str) or not (_is_num(t["xmin"]) and _is_num(t["xmax"])):
                raise SpecError("textgrid_json: tier header types")
            tiers.append({"class": t["class"], "name": t["name"], "xmin": t["xmin"], "xmax": t["xmax"], "entries": _check_entries(t["class"], t["entries"])})
        return {"xmin": d["xmin"], "xmax": d["xmax"], "tiers": tiers}
    raise SpecError("top-level keys %r match neither README schema" % sorted(d.keys()))


def read_any(text, fmt):
    if fmt in ("json", "textgrid_json"):
        d = read_json(text)
        if ("json_plain" in d) != (fmt == "json"):
            raise SpecError("document follows the other JSON schema than the requested format %r" % fmt)
        return d
    d = read_textgrid(text)
    if fmt == "long_textgrid" and "item [" not in text and d["tiers"]:
        raise SpecError("long format requested but the document has no 'item [' labels")
    return d


# ----------------------------------------------------------------------
# writers
# ----------------------------------------------------------------------
def render_number(x, style="plain"):
    """A decimal text denoting exactly the float x (or x itself for ints), in the requested style:
    plain   -- positional decimal, no exponent
    exp     -- exponent notation, lower-case e
    EXP     -- exponent notation, upper-case E
    int     -- integer text when x is integral, else plain
    negzero -- '-0' for zero, else plain"""
    if style == "negzero" and x == 0:
        return "-0"
    if style == "int" and float(x).is_integer() and abs(x) < 1e16:
        return "%d" % x
    r = repr(float(x))
    if style in ("exp", "EXP"):
        mant, ex = ("%.16e" % float(x)).split("e")
        mant = mant.rstrip("0").rstrip(".")
        out = "%se%s%02d" % (mant, "-" if int(ex) < 0 else "+", abs(int(ex)))
        if float(out) != float(x):
            raise AssertionError("rendering %r lost the value of %r" % (out, x))
        return out.replace("e", "E") if style == "EXP" else out
    if "e" in r or "E" in r or "inf" in r or "nan" in r:
        r = format(Decimal(r), "f")
    if float(r) != float(x):
        raise AssertionError("rendering %r lost the value of %r" % (r, x))
    return r


def esc(s):
    return s.replace('"', '""')


def write_long(tg, style="plain", elan=False, newline="\n", styles=None):
    """tg: {"xmin","xmax","tiers":[{"class","name","xmin","xmax","entries"}]}; styles: optional iterator of styles per number"""
    it = iter(styles) if styles is not None else None

    def n(x):
        return render_number(x, next(it) if it is not None else style)

    sp = "" if elan else " "
    L = []
    L.append('File type = "ooTextFile"')
    L.append('Object class = "TextGrid"')
    L.append("")
    L.append("xmin = %s%s" % (n(tg["xmin"]), sp))
    L.append("xmax = %s%s" % (n(tg["xmax"]), sp))
    L.append("tiers? <exists> ")
    L.append("size = %d " % len(tg["tiers"]))
    L.append("item []: ")
    for ti, t in enumerate(tg["tiers"]):
        L.append("    item%s[%d]:" % ("" if elan else " ", ti + 1))
        L.append('        class = "%s" ' % t["class"])
        L.append('        name = "%s" ' % esc(t["name"]))
        L.append("        xmin = %s%s" % (n(t["xmin"]), sp))
        L.append("        xmax = %s " % n(t["xmax"]))
        if t["class"] == "IntervalTier":
            L.append("        intervals: size = %d " % len(t["entries"]))
            for k, (a, b, lab) in enumerate(t["entries"]):
                L.append("        intervals [%d]%s" % (k + 1, "" if elan else ":"))
                L.append("            xmin = %s " % n(a))
                L.append("            xmax = %s " % n(b))
                L.append('            text = "%s" ' % esc(lab))
        else:
            L.append("        points: size = %d " % len(t["entries"]))
            for k, (a, lab) in enumerate(t["entries"]):
                L.append("        points [%d]%s" % (k + 1, "" if elan else ":"))
                L.append("            number = %s " % n(a))
                L.append('            mark = "%s" ' % esc(lab))
    return newline.join(L) + newline


def write_short(tg, style="plain", newline="\n", styles=None):
    it = iter(styles) if styles is not None else None

    def n(x):
        return render_number(x, next(it) if it is not None else style)

    L = ['File type = "ooTextFile"', 'Object class = "TextGrid"', "", n(tg["xmin"]), n(tg["xmax"]), "<exists>", "%d" % len(tg["tiers"])]
    for t in tg["tiers"]:
        L.append('"%s"' % t["class"])
        L.append('"%s"' % esc(t["name"]))
        L.append(n(t["xmin"]))
        L.append(n(t["xmax"]))
        L.append("%d" % len(t["entries"]))
        for e in t["entries"]:
            for v in e[:-1]:
                L.append(n(v))
            L.append('"%s"' % esc(e[-1]))
    return newline.join(L) + newline


def write_json(tg, plain):
    if plain:
        d = {"start": tg["xmin"], "end": tg["xmax"], "tiers": {t["name"]: {"type": t["class"], "entries": [list(e) for e in t["entries"]]} for t in tg["tiers"]}}
    else:
        d = {"xmin": tg["xmin"], "xmax": tg["xmax"], "tiers": [
            {"class": t["class"], "name": t["name"], "xmin": t["xmin"], "xmax": t["xmax"], "entries": [list(e) for e in t["entries"]]} for t in tg["tiers"]]}
    return json.dumps(d, ensure_ascii=False)


def encode(text, encoding):
    """encoding in {'utf-8', 'utf-8-sig', 'utf-16-le-bom', 'utf-16-be-bom'}"""
    if encoding == "utf-8":
        return text.encode("utf-8")
    if encoding == "utf-8-sig":
        return text.encode("utf-8-sig")
    if encoding == "utf-16-le-bom":
        return b"\xff\xfe" + text.encode("utf-16-le")
    if encoding == "utf-16-be-bom":
        return b"\xfe\xff" + text.encode("utf-16-be")
    raise ValueError(encoding)

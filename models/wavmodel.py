"""List-of-samples model of a mono PCM recording (no praatio import)."""
from fractions import Fraction as F


def decode(frames, width):
    """little-endian signed integers, `width` bytes each; None if the byte string does not hold whole samples"""
    if len(frames) % width:
        return None
    code = {1: "b", 2: "h", 4: "i"}.get(width)
    if code is None:
        return [int.from_bytes(frames[i:i + width], "little", signed=True) for i in range(0, len(frames), width)]
    import array
    import sys

    a = array.array(code)
    if a.itemsize != width:  # exotic platform: fall back to the slow, obviously right way
        return [int.from_bytes(frames[i:i + width], "little", signed=True) for i in range(0, len(frames), width)]
    a.frombytes(bytes(frames))
    if sys.byteorder != "little":
        a.byteswap()
    return a.tolist()


def encode(samples, width):
    return b"".join(int(s).to_bytes(width, "little", signed=True) for s in samples)


def index_at(t, rate):
    """sample index nearest to the exact rational t * rate; None when t*rate is within 1e-6 of a half (nearest is two-valued)"""
    x = F(t) * F(rate)
    fl = x.numerator // x.denominator
    frac = x - fl
    if abs(frac - F(1, 2)) <= F(1, 10 ** 6):
        return None
    return fl + (1 if frac > F(1, 2) else 0)


def on_grid(t, rate):
    """t falls on a sample position (k / rate as a float is rarely exactly that rational: 1e-9 samples of slack)"""
    x = F(t) * F(rate)
    return abs(x - round(x)) <= F(1, 10 ** 9)

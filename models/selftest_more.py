"""Model self-tests that use the repository's fixtures (run from check.py --selftest)."""
import glob
import io
import os


def _read(path):
    try:
        with io.open(path, "r", encoding="utf-16") as fd:
            return fd.read()
    except UnicodeError:
        with io.open(path, "r", encoding="utf-8") as fd:
            return fd.read()


def run(repo):
    from models import praat_text as PT

    n = 0
    # 1. number rendering round-trips
    for x in (0.0, 1.0, 0.1 + 0.2, 1e-5, 5e-05, 1.2345678901234567e-17, 123456789012345.0, 1e15, 2.9999999999999996, 0.3):
        for st in ("plain", "exp", "EXP", "int", "negzero"):
            assert float(PT.render_number(x, st)) == x, (x, st)
            n += 1
    assert PT.render_number(1e-5, "plain") == "0.00001" and "e" in PT.render_number(1e-5, "exp")
    # 2. writer -> reader identity, all layouts
    data = {"xmin": 0.0, "xmax": 2.5, "tiers": [
        {"class": "IntervalTier", "name": 'a "q" = 1', "xmin": 0.0, "xmax": 2.5, "entries": [(0.0, 1e-5, ""), (1e-5, 1.5, 'say "hi"\nthere ! not a comment'), (1.5, 2.5, '"')]},
        {"class": "TextTier", "name": "item [2]:", "xmin": 0.0, "xmax": 2.5, "entries": [(0.25, 'intervals [1]:'), (2.0, '"IntervalTier"')]},
        {"class": "IntervalTier", "name": "empty", "xmin": 0.0, "xmax": 2.5, "entries": []}]}
    for text in (PT.write_long(data), PT.write_long(data, "exp", True, "\r\n"), PT.write_short(data), PT.write_short(data, "EXP", "\r\n")):
        d = PT.read_textgrid(text)
        assert d["xmin"] == 0.0 and d["xmax"] == 2.5 and [t["name"] for t in d["tiers"]] == [t["name"] for t in data["tiers"]]
        for a, b in zip(d["tiers"], data["tiers"]):
            assert a["entries"] == b["entries"] and a["class"] == b["class"], (a, b)
        n += 1
    for plain in (True, False):
        d = PT.read_json(PT.write_json(data, plain))
        assert [t["entries"] for t in d["tiers"]] == [t["entries"] for t in data["tiers"]]
        n += 1
    # a wrong declared size must be noticed
    bad = PT.write_short(data).replace("\n3\n", "\n2\n", 1)
    try:
        PT.read_textgrid(bad)
        raise AssertionError("wrong size not noticed")
    except PT.SpecError:
        n += 1
    # 3. every TextGrid fixture shipped with the repository decodes, completely, to what praatio reads
    from praatio.utilities import textgrid_io

    files = sorted(set(glob.glob(os.path.join(str(repo), "tests", "files", "*.TextGrid")) + glob.glob(os.path.join(str(repo), "examples", "files", "*.TextGrid"))
                       + glob.glob(os.path.join(str(repo), "tutorials", "**", "*.TextGrid"), recursive=True)))
    assert len(files) >= 15, files
    for f in files:
        text = _read(f)
        d = PT.read_textgrid(text)
        ref = textgrid_io.parseTextgridStr(text, True)
        assert float(ref["xmin"]) == d["xmin"] and float(ref["xmax"]) == d["xmax"], f
        assert len(ref["tiers"]) == len(d["tiers"]), f
        for a, b in zip(ref["tiers"], d["tiers"]):
            assert a["class"] == b["class"] and a["name"] == b["name"], (f, a["name"], b["name"])
            ea = [tuple(float(v) for v in e[:-1]) + (e[-1],) for e in a["entries"]]
            eb = [tuple(e[:-1]) + (e[-1].strip(),) for e in b["entries"]]
            assert ea == eb, (f, a["name"])
        n += 1
    return n

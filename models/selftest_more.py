def run(repo):
    return 0

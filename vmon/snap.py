"""Structural (by value) snapshots of praatio objects, and the inverse.

A snapshot is plain JSON-compatible data so it can be stored in replay files:

  tier      -> {"t": "I"|"P", "name": str, "min": float, "max": float,
                "entries": [[start, end, label] | [time, label], ...]}
  textgrid  -> {"min": float|None, "max": float|None, "tiers": [tier, ...]}

Floats are kept as Python floats (json round-trips them exactly through repr).
Bit-level comparisons use :func:`same_float`.
"""
import math


def is_tier(obj):
    return hasattr(obj, "_entries") and hasattr(obj, "tierType")


def is_tg(obj):
    """a Textgrid whose tiers are ordinary interval/point tiers (a Klattgrid is a Textgrid subclass holding other tier kinds)"""
    d = getattr(obj, "_tierDict", None)
    if d is None:
        return False
    try:
        return all(is_tier(t) for t in d.values())
    except Exception:
        return False


def tier_snap(t):
    kind = "I" if t.tierType == "IntervalTier" else "P"
    return {
        "t": kind,
        "name": t.name,
        "min": t.minTimestamp,
        "max": t.maxTimestamp,
        "entries": [list(e) for e in t._entries],
    }


def _public_names(tg):
    """tg.tierNames read without waking the monitors that may sit on that property (a snapshot is taken from inside monitors)"""
    from vmon import core

    with core.paused():
        return list(tg.tierNames)


def tg_snap(tg):
    return {
        "min": tg.minTimestamp,
        "max": tg.maxTimestamp,
        "tiers": [tier_snap(t) for t in tg._tierDict.values()],
        "keys": list(tg._tierDict.keys()),
        "names": _public_names(tg),  # the public view of the same thing (they are one and the same unless something is cached)
    }


def any_snap(obj):
    if is_tier(obj):
        return tier_snap(obj)
    if is_tg(obj):
        return tg_snap(obj)
    if isinstance(obj, (list, tuple)):
        return [any_snap(x) for x in obj]
    if isinstance(obj, dict):
        return {str(k): any_snap(v) for k, v in obj.items()}
    if isinstance(obj, (int, float, str, bool)) or obj is None:
        return obj
    if callable(obj):
        return "<callable>"
    return repr(obj)


def build_tier(snap):
    """Rebuild a real praatio tier from a snapshot (through the public constructor)."""
    from praatio.data_classes.interval_tier import IntervalTier
    from praatio.data_classes.point_tier import PointTier

    klass = IntervalTier if snap["t"] == "I" else PointTier
    return klass(snap["name"], [tuple(e) for e in snap["entries"]], snap["min"], snap["max"])


def build_tg(snap):
    from praatio.data_classes.textgrid import Textgrid

    tg = Textgrid(snap["min"], snap["max"])
    for ts in snap["tiers"]:
        tg.addTier(build_tier(ts), reportingMode="silence")
    tg.minTimestamp = snap["min"]
    tg.maxTimestamp = snap["max"]
    return tg


def same_float(a, b):
    """Bit-identical for our purposes: equal value and equal sign of zero."""
    if isinstance(a, bool) or isinstance(b, bool):
        return a == b
    try:
        if a != b:
            return False
        if a == 0 and b == 0:
            return math.copysign(1.0, a) == math.copysign(1.0, b)
        return True
    except TypeError:
        return False


def same_entries(a, b, exact_zero_sign=False):
    """Entry lists equal with == on floats and on labels (−0.0 == 0.0 unless asked)."""
    if len(a) != len(b):
        return False
    for x, y in zip(a, b):
        if len(x) != len(y):
            return False
        for u, v in zip(x, y):
            if isinstance(u, str) or isinstance(v, str):
                if u != v:
                    return False
            elif exact_zero_sign:
                if not same_float(float(u), float(v)):
                    return False
            elif float(u) != float(v):
                return False
    return True


def plain(entries):
    """tuple-of-tuples with plain floats (drops the namedtuple __eq__ tolerance)."""
    return tuple(tuple(e) for e in entries)


def snap_equal(a, b):
    """Deep equality of snapshots with exact float comparison (namedtuple-free)."""
    return _canon(a) == _canon(b)


def _canon(x):
    if isinstance(x, dict):
        return tuple(sorted((k, _canon(v)) for k, v in x.items()))
    if isinstance(x, (list, tuple)):
        return tuple(_canon(v) for v in x)
    if isinstance(x, float):
        return ("f", x.hex())
    if isinstance(x, bool):
        return ("b", x)
    if isinstance(x, int):
        return ("f", float(x).hex()) if abs(x) < 2 ** 53 else ("i", x)
    return x


def wellformed_times(s):
    """well-formed as far as times go (order, no overlap, inside the span).  The tier-operation properties use this one: an operation
    is judged on a receiver whose labels carry padding as well - it has to hand the labels on as they are."""
    return wellformed_tier_snap(s, labels=False)


def wellformed_tier_snap(s, labels=True):
    """The model's notion of a well-formed tier (does not call praatio.validate)."""
    es = s["entries"]
    lo, hi = s["min"], s["max"]
    try:
        if not (math.isfinite(lo) and math.isfinite(hi)) or lo > hi:
            return False
        if s["t"] == "I":
            prev_end = None
            for st, en, lab in es:
                if not (st < en) or st < lo or en > hi:
                    return False
                if prev_end is not None and st < prev_end:
                    return False
                if labels and lab != lab.strip():
                    return False
                prev_end = en
        else:
            prev = None
            for t, lab in es:
                if t < lo or t > hi:
                    return False
                if prev is not None and t < prev:
                    return False
                if labels and lab != lab.strip():
                    return False
                prev = t
    except (TypeError, ValueError, AttributeError):
        return False
    return True

"""Monitor runtime: attach wrappers to real praatio callables, record verdicts.

No property knowledge lives here.  A *monitor* is a pair (pre, post) of
functions installed around a real callable with :func:`attach`.  The wrapper

  1. bumps the call depth,
  2. calls ``pre(ctx)`` which snapshots receiver/arguments (by value) and may
     return ``SKIP`` when the monitor's precondition does not hold,
  3. runs the real code, capturing the result or the exception and whatever
     was printed,
  4. calls ``post(ctx)`` which evaluates the oracle and reports through the
     process-wide :data:`REC` recorder,
  5. re-raises / returns exactly what the real code raised / returned.

Monitors record and continue; they never raise into the monitored program.
An exception inside a monitor is counted as ``monitor_error`` and makes the
run inconclusive (exit 2), it is never reported as a violation.
"""
import contextlib
import functools
import hashlib
import io
import os
import json
import sys
import traceback
from collections import Counter, defaultdict

SKIP = object()


class Recorder:
    """Process-wide sink for verdicts, counters, signatures and samples."""

    MAX_SAMPLES_PER_CLASS = 2
    MAX_VIOLATIONS = 40

    def __init__(self):
        self.reset()

    def reset(self):
        self.evals = Counter()  # monitor -> judged cases
        self.skips = Counter()  # monitor:reason -> count
        self.classes = Counter()  # coverage classes observed ("C06:empty-window")
        self.outcomes = Counter()  # monitor:returned|rejected:<Exc>|crashed:<Exc>
        self.sigs = set()  # 64-bit signature hashes of non-trivial judged cases
        self.samples = defaultdict(list)  # class -> [case,...]
        self.violations = []  # list of dict
        self.violation_count = 0
        self.monitor_errors = []
        self.calls = Counter()  # hooked callable -> calls seen (any depth)
        self.notes = Counter()
        self.options = Counter()  # "Owner.func(param=value)" -> judged calls that used this value of an option-like parameter
        self.option_domains = {}  # "Owner.func(param)" -> values its annotation enumerates
        self.states = set()  # abstract state hashes (history properties)
        self.transitions = set()
        self.aborted = []  # driver pieces given up because a set-up step (not a judged call) failed

    # -- reporting API used by monitors and drivers --------------------
    def held(self, monitor, sig=None, cls=None, sample=None):
        self.evals[monitor] += 1
        if sig is not None:
            self.sigs.add(h64(sig))
        if cls:
            for c in (cls if isinstance(cls, (list, tuple, set)) else (cls,)):
                self.classes[c] += 1
                if sample is not None and len(self.samples[c]) < self.MAX_SAMPLES_PER_CLASS:
                    self.samples[c].append(sample)

    def violation(self, prop, monitor, op, case, msg, sig=None, mech=None):
        """Record a violated case.  *case* must be JSON-serialisable and hold
        everything needed to replay the single monitored call.  *mech* is an
        optional dict of mechanism features for the known-finding classifiers."""
        self.evals[monitor] += 1
        self.violation_count += 1
        if sig is not None:
            self.sigs.add(h64(sig))
        if len(self.violations) < self.MAX_VIOLATIONS or mech_is_new(self.violations, mech, monitor, msg):
            self.violations.append(
                {
                    "property": prop,
                    "monitor": monitor,
                    "op": op,
                    "case": case,
                    "msg": msg,
                    "mech": mech or {},
                    "process_env": os.environ.get("VERIF_PROCESS_ENV", "default"),
                }
            )

    def skip(self, monitor, reason):
        self.skips["%s:%s" % (monitor, reason)] += 1

    def outcome(self, monitor, exc):
        if exc is None:
            self.outcomes[monitor + ":returned"] += 1
        else:
            kind = "rejected" if is_praatio_error(exc) else "crashed"
            self.outcomes["%s:%s:%s" % (monitor, kind, type(exc).__name__)] += 1

    def cls(self, *names):
        for n in names:
            self.classes[n] += 1

    def note(self, text):
        self.notes[text] += 1

    def state(self, s):
        self.states.add(h64(s))

    def transition(self, t):
        self.transitions.add(h64(t))

    def monitor_error(self, monitor, exc):
        if len(self.monitor_errors) < 10:
            self.monitor_errors.append(
                {"monitor": monitor, "error": "".join(traceback.format_exception(exc))[-2000:]}
            )
        self.notes["monitor_error:" + monitor] += 1

    def dump(self):
        return {
            "evals": dict(self.evals),
            "skips": dict(self.skips),
            "classes": dict(self.classes),
            "outcomes": dict(self.outcomes),
            "sigs": sorted(self.sigs),
            "samples": {k: v for k, v in self.samples.items()},
            "violations": self.violations,
            "violation_count": self.violation_count,
            "monitor_errors": self.monitor_errors,
            "calls": dict(self.calls),
            "notes": dict(self.notes),
            "options": dict(self.options),
            "option_domains": dict(self.option_domains),
            "states": sorted(self.states),
            "transitions": sorted(self.transitions),
            "aborted_pieces": self.aborted[:20],
            "aborted_piece_count": len(self.aborted),
        }


def mech_is_new(violations, mech, monitor, msg):
    key = (monitor, json.dumps(mech or {}, sort_keys=True, default=str))
    seen = {(v["monitor"], json.dumps(v["mech"], sort_keys=True, default=str)) for v in violations}
    return key not in seen and len(violations) < 400


def h64(obj):
    if not isinstance(obj, (str, bytes)):
        obj = repr(obj)
    if isinstance(obj, str):
        obj = obj.encode("utf-8", "surrogatepass")
    return int.from_bytes(hashlib.blake2b(obj, digest_size=8).digest(), "big")


def is_praatio_error(exc):
    for klass in type(exc).__mro__:
        if klass.__name__ == "PraatioException":
            return True
    return False


REC = Recorder()


class Ctx:
    """Everything one monitored call exposes to its pre/post functions."""

    __slots__ = ("name", "args", "kwargs", "self_", "result", "exc", "stdout", "depth", "pre", "orig")

    def arg(self, index, name, default=None):
        """Positional-or-keyword argument lookup (index counts after self)."""
        if name in self.kwargs:
            return self.kwargs[name]
        if index < len(self.args):
            return self.args[index]
        return default


_depth = 0
_attached = []  # (owner, attr, original descriptor)
_enabled = True


def depth():
    return _depth


@contextlib.contextmanager
def paused():
    """Temporarily run real code without monitors judging (used by oracles that
    need to call praatio themselves, e.g. to rebuild inputs)."""
    global _enabled
    old = _enabled
    _enabled = False
    try:
        yield
    finally:
        _enabled = old


def _literal_values(ann):
    import typing

    out = []
    if typing.get_origin(ann) is typing.Literal:
        out.extend(typing.get_args(ann))
    for a in typing.get_args(ann) if typing.get_origin(ann) is not typing.Literal else ():
        out.extend(_literal_values(a))
    return out


def _option_params(orig, drop_first):
    """[(positional index, name, default)] of the parameters that select behaviour: annotated Literal[...]/bool, or defaulting to
    a str/bool/None; their enumerated domains are registered so that evidence can say which values no judged call used."""
    import inspect

    try:
        params = list(inspect.signature(orig).parameters.values())
    except (TypeError, ValueError):
        return [], {}
    if drop_first and params:
        params = params[1:]
    out, domains = [], {}
    for i, p in enumerate(params):
        if p.kind not in (p.POSITIONAL_OR_KEYWORD, p.KEYWORD_ONLY):
            continue
        dom = []
        try:
            dom = _literal_values(p.annotation)
        except Exception:
            pass
        if p.annotation is bool:
            dom = [True, False]
        if dom or isinstance(p.default, (str, bool)):
            out.append((i, p.name, p.default))
            if dom:
                domains[p.name] = [repr(v) for v in dom]
    return out, domains


def attach(owner, attr, monitor, pre=None, post=None, method=True, capture_stdout=False):
    """Replace ``owner.attr`` with a monitored wrapper.

    method=True: first positional argument is the receiver (ctx.self_).
    """
    raw = owner.__dict__[attr] if isinstance(owner, type) else getattr(owner, attr)
    is_static = isinstance(raw, staticmethod)
    is_class = isinstance(raw, classmethod)
    is_prop = isinstance(raw, property)
    if is_static or is_class:
        orig = raw.__func__
    elif is_prop:
        orig = raw.fget
    else:
        orig = raw
    label = "%s.%s" % (getattr(owner, "__name__", str(owner)).split(".")[-1], attr)
    optparams, optdomains = _option_params(orig, method and not is_static)
    if post is None:  # a counter or tracer, not a judge: it has no option coverage to report
        optparams, optdomains = [], {}
    for pname, dom in optdomains.items():
        REC.option_domains["%s(%s)" % (label, pname)] = dom

    @functools.wraps(orig)
    def wrapper(*args, **kwargs):
        global _depth
        REC.calls[label] += 1
        if not _enabled or _depth >= 1000:
            return orig(*args, **kwargs)
        ctx = Ctx()
        ctx.name = label
        ctx.orig = orig
        ctx.kwargs = kwargs
        if method and not is_static:
            ctx.self_ = args[0] if args else None
            ctx.args = args[1:]
        else:
            ctx.self_ = None
            ctx.args = args
        ctx.depth = _depth
        ctx.result = None
        ctx.exc = None
        ctx.stdout = ""
        ctx.pre = None
        skip = False
        if pre is not None:
            try:
                ctx.pre = pre(ctx)
                skip = ctx.pre is SKIP
            except Exception as e:  # monitor bug, never the program's
                REC.monitor_error(monitor, e)
                skip = True
        _depth += 1
        buf = None
        try:
            if capture_stdout and not skip:
                buf = io.StringIO()
                with contextlib.redirect_stdout(buf):
                    ctx.result = orig(*args, **kwargs)
            else:
                ctx.result = orig(*args, **kwargs)
        except BaseException as e:  # noqa
            ctx.exc = e
        finally:
            _depth -= 1
        if buf is not None:
            ctx.stdout = buf.getvalue()
            if ctx.stdout:
                sys.stdout.write(ctx.stdout)
        if isinstance(ctx.exc, (KeyboardInterrupt, SystemExit)):
            raise ctx.exc
        if not skip and post is not None:
            for i, pname, default in optparams:
                v = ctx.args[i] if i < len(ctx.args) else kwargs.get(pname, default)
                if v is None or isinstance(v, bool) or (isinstance(v, str) and len(v) <= 24):
                    REC.options["%s(%s=%r)" % (label, pname, v)] += 1
            try:
                with paused_depth():
                    post(ctx)
            except Exception as e:
                REC.monitor_error(monitor, e)
        if ctx.exc is not None:
            raise ctx.exc
        return ctx.result

    wrapper.__vmon_orig__ = raw
    if is_static:
        new = staticmethod(wrapper)
    elif is_class:
        new = classmethod(wrapper)
    elif is_prop:
        new = property(wrapper, raw.fset, raw.fdel)
    else:
        new = wrapper
    setattr(owner, attr, new)
    _attached.append((owner, attr, raw))
    if isinstance(owner, type) and _follow_overrides:
        # a subclass that defines the same method itself would bypass the hook on the base class: hook the override as well
        todo = list(owner.__subclasses__())
        while todo:
            sub = todo.pop()
            todo.extend(sub.__subclasses__())
            if attr in sub.__dict__ and not hasattr(_unwrap(sub.__dict__[attr]), "__vmon_orig__"):
                attach(sub, attr, monitor, pre, post, method, capture_stdout)
    return wrapper


_follow_overrides = True


def _unwrap(x):
    if isinstance(x, (staticmethod, classmethod)):
        return x.__func__
    if isinstance(x, property):
        return x.fget
    return x


@contextlib.contextmanager
def paused_depth():
    """While an oracle runs, calls it makes into praatio count as nested
    (depth > 0) so top-level-only monitors do not judge them."""
    global _depth
    _depth += 1000
    try:
        yield
    finally:
        _depth -= 1000


def detach_all():
    while _attached:
        owner, attr, raw = _attached.pop()
        setattr(owner, attr, raw)


class StepBudgetExceeded(BaseException):
    """Raised by a logical step counter to abort a runaway monitored call."""

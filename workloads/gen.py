"""Seeded / exhaustive generators of tiers, windows, labels and numbers.

Nothing here imports praatio: generators return plain data (entry lists and
spans); drivers build real objects through the public constructors.
"""
import itertools
import math
from functools import lru_cache

UNIT = 0.125  # dyadic grid step: all arithmetic on multiples of UNIT/2 is exact


# ----------------------------------------------------------------------
# exhaustive dyadic-grid domain
# ----------------------------------------------------------------------
@lru_cache(maxsize=None)
def grid_layouts(ncells, maxint):
    """All sets of <= maxint pairwise non-overlapping intervals (touching
    allowed) whose boundaries are integers in [0, ncells]."""
    res = []

    def rec(pos, acc):
        res.append(tuple(acc))
        if len(acc) == maxint:
            return
        for s in range(pos, ncells):
            for e in range(s + 1, ncells + 1):
                acc.append((s, e))
                rec(e, acc)
                acc.pop()

    rec(0, [])
    return res


@lru_cache(maxsize=None)
def grid_tiers(ncells, maxint, labels=("a", "b")):
    """Layouts x label assignments; entries in *cell* units (ints)."""
    res = []
    for lay in grid_layouts(ncells, maxint):
        for labs in itertools.product(labels, repeat=len(lay)):
            res.append(tuple((s, e, l) for (s, e), l in zip(lay, labs)))
    return res


def cells_to_time(entries, unit=UNIT, offset=0.0):
    return [(offset + s * unit, offset + e * unit, l) for s, e, l in entries]


def half_grid(ncells, extend=1, unit=UNIT, offset=0.0):
    """Times on the half grid from `extend` half... full steps before 0 to after the end."""
    return [offset + (i / 2.0) * unit for i in range(-2 * extend, 2 * (ncells + extend) + 1)]


@lru_cache(maxsize=None)
def grid_point_tiers(ncells, maxpts, labels=("a", "b")):
    res = []
    pos = list(range(0, 2 * ncells + 1))  # half-grid positions
    for k in range(0, maxpts + 1):
        for combo in itertools.combinations(pos, k):
            for labs in itertools.product(labels, repeat=k):
                res.append(tuple((p, l) for p, l in zip(combo, labs)))
    return res


def shard_slice(seq, shard, nshards):
    return itertools.islice(seq, shard, None, nshards)


# ----------------------------------------------------------------------
# decimal (non-dyadic) domain
# ----------------------------------------------------------------------
# mostly three plain labels (same-labelled neighbours must stay frequent); now and then text that is not in Unicode normal form
DEFAULT_LABELS = ["a", "b", "c"] * 8 + ["e\u0301", "\u212b", "\u00a0nb", "w\u3000", "L-L%", "{0}"]  # (two are padded with no-break / ideographic space: tiers store them trimmed; two carry characters that mean something to a format string)
LABELS = ["a", "b", "c", "aa", "x y", "", "é", "7", "e\u0301"]  # the last two look alike: precomposed and decomposed


BIG_TIER_RATE = 0.004


def rand_time_source(rng):
    """A function producing non-dyadic timestamps of one 'flavour'."""
    flavour = rng.choice(["ms", "44100", "cs", "digits17", "sum", "16000"])
    if flavour == "ms":
        return flavour, lambda hi: rng.randrange(0, int(hi * 1000) + 1) / 1000
    if flavour == "cs":
        return flavour, lambda hi: rng.randrange(0, int(hi * 100) + 1) / 100
    if flavour == "44100":
        return flavour, lambda hi: rng.randrange(0, int(hi * 44100) + 1) / 44100
    if flavour == "16000":
        return flavour, lambda hi: rng.randrange(0, int(hi * 16000) + 1) / 16000
    if flavour == "digits17":
        return flavour, lambda hi: rng.uniform(0, hi)
    return flavour, lambda hi: math.fsum([rng.randrange(0, int(hi * 50) + 1) * 0.01, rng.randrange(0, 2) * 0.1, rng.randrange(0, 2) * 0.2])


def rand_interval_entries(rng, nmax=6, hi=5.0, labels=None, allow_blank=False, touching_bias=0.5, src=None):
    """A sorted non-overlapping interval entry list on decimals; consecutive
    entries touch with probability touching_bias."""
    labels = labels or DEFAULT_LABELS
    if src is None:
        _, src = rand_time_source(rng)
    n = rng.randrange(0, nmax + 1)
    if rng.random() < BIG_TIER_RATE:
        n = rng.choice([rng.randrange(60, 200), rng.randrange(260, 420)])  # an occasional tier of realistic size (a few hundred entries)
    k = 2 * n
    raw = sorted({src(hi) for _ in range(k * 2 + 2)})
    pts = []
    for x in raw:  # keep boundaries at least 1e-6 apart: sub-resolution intervals are C04's subject
        if not pts or x - pts[-1] > 1e-6:
            pts.append(x)
    entries = []
    i = 0
    while len(entries) < n and i + 1 < len(pts):
        s, e = pts[i], pts[i + 1]
        if s < e:
            lab = rng.choice(labels)
            entries.append((s, e, lab))
        if rng.random() < touching_bias:
            i += 1
        else:
            i += 2
    return entries


def rand_point_entries(rng, nmax=6, hi=5.0, labels=None, src=None, ties=0.0):
    labels = labels or DEFAULT_LABELS
    if src is None:
        _, src = rand_time_source(rng)
    n = rng.randrange(0, nmax + 1)
    if rng.random() < BIG_TIER_RATE:
        n = rng.choice([rng.randrange(60, 200), rng.randrange(260, 420)])
    pts = []
    for x in sorted({src(hi) for _ in range(n)}):
        # praatio's Point equality is tolerant (1e-14 abs / 1e-9 rel): points closer than that are the
        # same point to the library, so they are not generated as distinct entries
        if not pts or x - pts[-1] > 1e-6:
            pts.append(x)
    ents = [(t, rng.choice(labels)) for t in pts]
    if ties and ents and rng.random() < ties:
        # two (now and then three) marks at exactly the same time - a tone and a boundary on one point, say; the constructors accept
        # this, validate() is True, and the tier keeps them ordered by label
        for _ in range(rng.choice([1, 1, 2])):
            t, lab = ents[rng.randrange(len(ents))]
            others = [x for x in labels if x and x != lab] or [lab + "2"]
            new = (t, rng.choice(others))
            if new not in ents:
                ents.append(new)
        ents.sort()
    return ents


def span_for(rng, entries, hi=5.0, kind="I"):
    """A span containing the entries: sometimes tight, sometimes wider."""
    if entries:
        first = entries[0][0]
        last = entries[-1][1] if kind == "I" else entries[-1][0]
    else:
        first, last = 0.0, hi
    lo = rng.choice([0.0, 0.0, first, first / 2])
    top = rng.choice([last, max(last, hi), last + 0.25, last + 1 / 3])
    if top <= lo:
        top = lo + 1.0
    return lo, top


def boundary_biased_time(rng, entries, lo, hi, kind="I", outside=0.1, near=0.0):
    """A time that is, with high probability, an existing boundary or the
    midpoint of an entry/gap; sometimes outside the span; with probability *near* a time that misses a boundary by a sliver
    (5e-15 .. 3e-9 relative: from a few dozen ulps - the size of accumulated rounding noise - upwards, yet far below any practical minimum interval length)."""
    bounds = [lo, hi]
    for e in entries:
        bounds.append(e[0])
        if kind == "I":
            bounds.append(e[1])
    if near and rng.random() < near:
        b = rng.choice(bounds)
        return b + rng.choice([-1, 1]) * rng.choice([3e-9, 1e-10, 1e-12, 5e-15]) * max(1.0, abs(b))
    r = rng.random()
    if r < 0.45:
        return rng.choice(bounds)
    if r < 0.75 and len(bounds) >= 2:
        x, y = rng.sample(bounds, 2)
        return (x + y) / 2
    if r < 0.75 + outside:
        return rng.choice([lo - 0.5, hi + 0.5, lo - 0.001, hi + 0.001])
    return rng.uniform(lo, hi)


# ----------------------------------------------------------------------
# order-type signatures
# ----------------------------------------------------------------------
def cmp3(x, y):
    return (x > y) - (x < y)


def order_type(params, entries, kind="I"):
    """Tuple of three-way comparisons of every parameter with every boundary,
    plus the touching/gapped pattern between consecutive entries."""
    bounds = []
    for e in entries:
        bounds.append(e[0])
        if kind == "I":
            bounds.append(e[1])
    sig = []
    for p in params:
        sig.append(tuple(cmp3(p, b) for b in bounds))
    if kind == "I":
        sig.append(tuple(cmp3(entries[i][1], entries[i + 1][0]) for i in range(len(entries) - 1)))
    sig.append(tuple(cmp3(p, q) for p, q in itertools.combinations(params, 2)))
    return tuple(sig)

"""Generators of textgrid *data* for the file-format properties (C01-C04).

Plain data only (no praatio import):
  {"min": float, "max": float, "tiers": [{"t": "I"|"P", "name": str, "min": float, "max": float, "entries": [...]}]}
Number and text classes follow DESIGN.md 3.2.
"""
import math

NAME_POOL = ["words", "phones", "e\u0301", "\u212b", "t 1", 'q"uote', 'dq""uote', "a=b", "7", "é𝄞", "x" * 40, "Mary's", "tier[1]", "100%", " lead", "trail ", "  both  ", "xmax = 9", "xmin=1.5", "number = 3", "na\ufeffme", "{0}", "{laugh}", "%s"]  # (the last three look like fields of the long layout)
LABEL_POOL = [
    "", "a", "hello world", "7", "3.14", "-0", "x = y", 'say "hi"', '""', '"', 'a""b', '"start', 'end"', '"both"', "line1\nline2", "a\n\nb",
    'q"\n"r', "é", "日本語", "𝄞 clef", "tab\tinside", "a!b", "! bang", "<exists>", "semi;colon", "back\\slash", "x" * 300, "a  b", "%d %s",
    "e\u0301tude", "\u212bngstr\u00f6m", "\u1112\u1161\u11ab", "a\u0303o \u00e3o", "\ufb01n", "1e-05", "xmin", "text", "mark", "number", "size = 3", "null\x00byte", "-", "--", "0", "None", "false", "[]", "_",
    "vt\x0btab", "form\x0cfeed", "nel\x85here", "ls\u2028sep", "ps\u2029sep", "fs\x1cgs\x1drs\x1e",  # what str.splitlines() splits on, besides \n
    "step size = 0.25", "window size=0", "size = 0", 'say \\"hi\\"', 'end\\"', '\\""', "tab\\t", "\ufeff", "mid\ufeffbom", "\ufefflead", "100% sure", "50%% creaky", "{laugh}", "a}b", "{",
    "[noise], [laugh]", '"a": [1, 2], "b"', "}, {", "\\n not a newline", "\\u00e9", "ooTextFile", "says ooTextFile here", "File type",
]
WS_LABELS = [" ", "  \t", "\n", " pad ", "\nlead", "trail \n", "\t a  b \t", " \u00e9 ", "\u00a0nb", "wide\u3000", "\x1funit", "em\u2003", "\x85nel", "\tindented"]  # surrounding / only white space (file-level data; tiers store labels stripped)
KEYWORD_LABELS = ['item [2]:', 'intervals [1]:', 'points [1]:', '"IntervalTier"', '"TextTier"', 'class = "IntervalTier"', 'text = "x"',
                  'ooTextFile short', 'item[1]:', 'intervals: size = 2', 'before\nitem [3]:\nafter', 'name = "fake"', 'xmin = 5']


def has_keyword(s):
    return any(k in s for k in ("item [", "item[", "intervals [", "intervals[", "points [", "points[", '"IntervalTier"', '"TextTier"', "ooTextFile short",
                                'class = "IntervalTier"', "size = ", "size=", "xmin =", "xmax =", "xmin=", "xmax=", "name =", "name=", "text =", "text=", "mark =", "mark=", "number =", "number="))


READER_SPLIT_TOKENS = ("item [", "item[", "intervals [", "intervals[", "points [", "points[", '"IntervalTier"', '"TextTier"', "ooTextFile short")


def splits_reader(s):
    """True when the text contains one of the tokens praatio's text readers split the raw file on (known-finding mechanism)"""
    return any(k in s for k in READER_SPLIT_TOKENS)


def data_splits_reader(data, layout=None):
    """the known-finding mechanism, tier by tier and layout by layout (layout: "long" | "short" | None = either): a tier name with
    any of the tokens; a label with `item [` (both layouts: it decides which parser is used) - in the long layout also with the
    entry marker of ITS OWN tier type (`intervals [` in an interval tier, `points [` in a point tier) or `ooTextFile short`, in the
    short layout also with a quoted tier class.  Everything else - the marker of the other tier type, the own marker in a short
    file, a quoted class in a long file - is harmless for the readers and is judged like any other text."""
    both = ("item [", "item[")
    long_only = ("ooTextFile short",)
    short_only = ('"IntervalTier"', '"TextTier"')
    for t in data["tiers"]:
        if splits_reader(t["name"]):
            return True
        own = ("intervals [", "intervals[") if t["t"] == "I" else ("points [", "points[")
        toks = both + ((long_only + own) if layout in (None, "long") else ()) + (short_only if layout in (None, "short") else ())
        for e in t["entries"]:
            if any(k in e[-1] for k in toks):
                return True
    return False


def number_classes(rng, hi=10.0):
    """A list of (class, value) candidate timestamps (unsorted, may repeat)."""
    out = []
    for _ in range(3):
        out.append(("integer", float(rng.randrange(0, 50))))
        out.append(("dyadic", rng.randrange(0, 800) / 16))
        out.append(("short-decimal", rng.randrange(0, 5000) / 100))
        out.append(("ms-decimal", rng.randrange(0, 50000) / 1000))
        out.append(("digits17", rng.uniform(0, 50)))
    n = float(rng.randrange(1, 50))
    out.append(("near-integer", math.nextafter(n, math.inf)))
    out.append(("near-integer", math.nextafter(n, 0)))
    out.append(("near-integer", n * (1 + 4e-15)))
    out.append(("near-integer", n * (1 - 4e-15)))
    out.append(("almost-integer", n * (1 + 3e-10)))   # outside the 1e-14 near-integer rule, inside looser tolerances
    out.append(("almost-integer", n + 2e-9))
    out.append(("almost-integer", n * (1 - 5e-12)))
    out.append(("almost-integer", n + 1e-7))
    out.append(("arith", 0.1 + 0.2))
    out.append(("arith", 1.1 * 3))
    out.append(("arith", math.fsum([0.1] * rng.randrange(1, 30))))
    return out


def big_numbers(rng):
    return [("big", float(rng.randrange(10 ** 6, 10 ** 15))), ("big", rng.randrange(10 ** 9, 10 ** 12) + 0.5), ("big", 1e15), ("big", 123456789012345.0)]


def tiny_numbers(rng):
    return [("tiny", 1e-17), ("tiny", 5e-05), ("tiny", 1.2e-5), ("tiny", rng.uniform(1e-17, 1e-4)), ("tiny", 10.0 ** -rng.randrange(5, 17)), ("tiny", 3e-9)]


def epoch_times(rng, n, min_gap):
    """n ascending timestamps T + j + 0.25 + k*step on a large base T (1e7..1e12): every value is exactly representable, none is
    within the writer's 1e-14-relative distance of a whole number, and neighbouring ones are about 1e-14*T apart - a stretch that
    is long in seconds (well above any minimum interval length) yet short relative to the magnitude of the timestamps."""
    T = float(rng.choice([10 ** 7, 10 ** 8, 10 ** 9, 10 ** 10, 10 ** 11, 10 ** 12]) * rng.randrange(1, 9))
    step = 2.0 ** math.floor(math.log2(1e-14 * T * 0.5))
    while step < max(4 * min_gap, 4e-8) or step < 8 * math.ulp(T * 2):
        step *= 2
    kmax = max(2, int(0.5 / step))
    out = set()
    j = 0
    while len(out) < n:
        ks = sorted(rng.sample(range(kmax), min(kmax, rng.randrange(1, 6))))
        if rng.random() < 0.7 and ks[-1] + 1 < kmax:
            ks.append(ks[-1] + 1)  # neighbours exactly one step apart
        for k in ks:
            out.add(T + j + 0.25 + k * step)
        j += rng.randrange(1, 4)
    return sorted(out)[:n]


def gen_times(rng, n, scale_class, min_gap):
    """sorted distinct timestamps, consecutive ones at least min_gap apart (0 -> only distinct)"""
    if scale_class == "epoch":
        return epoch_times(rng, n, min_gap), {"epoch"}
    cands = number_classes(rng)
    if scale_class == "negative":  # Praat allows times below zero; the whole tier is moved 25 s to the left
        cands = [("negative" if v < 25.0 else c, v - 25.0) for c, v in cands]
    if scale_class == "big":
        cands += big_numbers(rng) * 3
    if scale_class == "tiny":
        cands += tiny_numbers(rng) * 3
    rng.shuffle(cands)
    vals = []
    classes = set()
    for c, v in cands:
        if len(vals) >= n:
            break
        if all(abs(v - w) >= max(min_gap, 1e-300) and v != w for w in vals):
            vals.append(v)
            classes.add(c)
    order = sorted(range(len(vals)), key=lambda i: vals[i])
    return [vals[i] for i in order], classes


def gen_label(rng, keywords=False, allow_empty=True, ws=False):
    r = rng.random()
    if keywords and r < 0.3:
        return rng.choice(KEYWORD_LABELS)
    if ws and r > 0.88:
        return rng.choice(WS_LABELS)
    lab = rng.choice(LABEL_POOL)
    if not allow_empty and lab == "":
        lab = "a"
    return lab


def gen_name(rng, keywords=False):
    if keywords and rng.random() < 0.2:
        return rng.choice(['item [2]:', '"IntervalTier"', 'ooTextFile short', 'intervals [1]:', 'text = "x"'])
    return rng.choice(NAME_POOL)


def fill_safe(data, min_gap):
    """every element of the blank-filled partition of every interval tier is either absent or >= min_gap long"""
    for t in data["tiers"]:
        if t["t"] != "I":
            continue
        cur = data["min"]
        for a, b, _ in t["entries"]:
            if a < cur or (0 < a - cur < min_gap) or b - a < min_gap:
                return False
            cur = b
        if cur > data["max"] or 0 < data["max"] - cur < min_gap:
            return False
    return True


def gen_textgrid(rng, **kw):
    """rejection-samples _gen_textgrid until the result is safe for default blank filling (when min_gap > 0)"""
    min_gap = kw.get("min_gap", 2e-8)
    for _ in range(50):
        data, classes = _gen_textgrid(rng, **kw)
        if not min_gap or fill_safe(data, min_gap):
            return data, classes
    raise RuntimeError("could not generate a fill-safe textgrid")


def _gen_textgrid(rng, ntiers=(1, 5), nentries=(0, 7), keywords=False, min_gap=2e-8, scale_class=None, point_tiers=True, full_span=None,
                 blank_labels=True, ws_labels=False):
    """A well-formed textgrid as plain data + the set of number classes used."""
    if scale_class is None:
        scale_class = rng.choice(["normal", "normal", "normal", "big", "tiny" if min_gap == 0 else "normal", "epoch", "negative"])
    tiers = []
    classes = set()
    names = []
    gmin, gmax = None, None
    ntier = rng.randrange(*ntiers)
    if rng.random() < 0.04:
        ntier = rng.randrange(9, 13)  # more tiers than fit one decimal digit / a small split limit
        classes.add("many-tiers")
    for _ in range(ntier):
        name = gen_name(rng, keywords)
        if names and rng.random() < 0.04 and names[-1].swapcase() != names[-1]:
            name = names[-1].swapcase()  # "Word" beside "word": two names, as far as the tier map is concerned
            classes.add("names-differing-in-case-only")
        while name in names:
            name = name + "_"
        names.append(name)
        kind = "P" if (point_tiers and rng.random() < 0.35) else "I"
        n = rng.randrange(*nentries)
        big = rng.random() < 0.01
        if big:
            n = rng.randrange(80, 160)  # a tier of realistic size
            classes.add("big-tier")
        if kind == "I" and big:
            ts, cl = [k / 100 for k in sorted(rng.sample(range(20000), 2 * n + 2))], {"short-decimal"}
            classes |= cl
            ents = []
            i = 0
            while len(ents) < n and i + 1 < len(ts):
                ents.append((ts[i], ts[i + 1], gen_label(rng, keywords, blank_labels, ws_labels)))
                i += rng.choice((1, 1, 2))
        elif kind == "I":
            ts, cl = gen_times(rng, 2 * n + 2, scale_class, min_gap)
            classes |= cl
            ents = []
            i = 0
            while len(ents) < n and i + 1 < len(ts):
                ents.append((ts[i], ts[i + 1], gen_label(rng, keywords, blank_labels, ws_labels)))
                i += rng.choice((1, 1, 2))
        elif big:
            ts = [k / 100 for k in sorted(rng.sample(range(20000), n))]
            ents = [(t, gen_label(rng, keywords, blank_labels, ws_labels)) for t in ts]
        else:
            ts, cl = gen_times(rng, n, scale_class if min_gap == 0 or scale_class != "tiny" else "normal", 0)
            if scale_class == "tiny" or rng.random() < 0.2:
                ts = sorted(set(ts) | {v for _, v in tiny_numbers(rng)[:2]})
            classes |= cl
            ents = [(t, gen_label(rng, keywords, blank_labels, ws_labels)) for t in ts[:n]]
            if ents and rng.random() < 0.07:
                # two marks on one instant (a tone and a break index): a point tier may hold them, and keeps them ordered by label
                j = rng.randrange(len(ents))
                ents[j:j + 1] = [(ents[j][0], "H*"), (ents[j][0], "L-")] if rng.random() < 0.5 else [(ents[j][0], "L-"), (ents[j][0], "H*")]  # (handed over in either order)
                classes.add("two-points-at-one-time")
        lo = ents[0][0] if ents else 0.0
        hi = ents[-1][-2] if ents else 1.0
        tiers.append({"t": kind, "name": name, "entries": ents, "lo": lo, "hi": hi})
    alllo = min(t["lo"] for t in tiers)
    allhi = max(t["hi"] for t in tiers)
    gmin = rng.choice([0.0, 0.0, alllo])
    if gmin > alllo:
        gmin = alllo
    gmax = rng.choice([allhi, allhi + 1.0, allhi + rng.randrange(1, 100) / 8, math.ceil(allhi) + 0.0])
    if gmax <= gmin:
        gmax = gmin + 1.0
    out = []
    narrow_ok = full_span is False or (full_span is None and rng.random() < 0.15)
    for t in tiers:
        if narrow_ok and rng.random() < 0.5:
            tmin, tmax = min(t["lo"], gmin if rng.random() < 0.5 else t["lo"]), t["hi"] if t["entries"] else gmax
            if tmax <= tmin:
                tmax = gmax
        else:
            tmin, tmax = gmin, gmax
        out.append({"t": t["t"], "name": t["name"], "min": tmin, "max": tmax, "entries": t["entries"]})
    return {"min": gmin, "max": gmax, "tiers": out}, classes


def to_spec(data):
    """plain data -> the structure models.praat_text writers take"""
    return {"xmin": data["min"], "xmax": data["max"], "tiers": [
        {"class": "IntervalTier" if t["t"] == "I" else "TextTier", "name": t["name"], "xmin": t["min"], "xmax": t["max"],
         # (points that share a time are written in label order: what order a reader keeps them in otherwise is not specified)
         "entries": [tuple(e) for e in t["entries"]] if t["t"] == "I" else sorted((tuple(e) for e in t["entries"]), key=lambda e: (e[0], e[1]))}
        for t in data["tiers"]]}


def label_classes(data):
    cs = set()
    for t in data["tiers"]:
        for s in [t["name"]] + [e[-1] for e in t["entries"]]:
            if '"' in s:
                cs.add("quote")
            if "\n" in s:
                cs.add("newline")
            if s == "":
                cs.add("empty")
            if any(ord(c) > 0xFFFF for c in s):
                cs.add("non-bmp")
            elif any(ord(c) > 127 for c in s):
                cs.add("unicode")
            if has_keyword(s):
                cs.add("keyword")
            if "=" in s:
                cs.add("equals")
    return cs


def has_exponent_number(data):
    for t in data["tiers"]:
        for e in t["entries"]:
            for v in e[:-1]:
                if "e" in repr(float(v)):
                    return True
        if "e" in repr(float(t["min"])) or "e" in repr(float(t["max"])):
            return True
    return "e" in repr(float(data["min"])) or "e" in repr(float(data["max"]))

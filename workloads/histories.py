"""Seeded operation histories over a pool of live tiers (used by C05 and C13).

Every result tier joins the pool, so later operations act on tiers that were
themselves produced by earlier operations ("reachable by histories").  The
driver never judges anything itself: monitors attached to the real classes do,
and an optional observer gets before/after callbacks for driver-level oracles
(frame checks over the whole pool, invariant on returned objects).
"""
from workloads import gen

TIER_OPS = [
    "construct", "new", "crop", "eraseRegion", "insertSpace", "editTimestamps",
    "insertEntry", "insertEntry", "insertEntry", "deleteEntry", "union", "difference",
    "intersection", "mergeLabels", "appendTier", "dejitter", "morph",
    # queries / validate: cannot change anything, but C13 must see that they do not
    "find", "timestamps", "getNonEntries", "getValues", "validate", "entries", "eq",
]
LABELS = ["a", "b", "c", "ab", "é", "a", "b", "H%", "e\u0301", "\u212b"]  # (precomposed and decomposed forms of one letter; a singleton)
HOSTILE_LABELS = [" a", "b ", " c d ", "\ta", "a\n", "", "\u00a0nb", "wide\u3000", "\u2003em", "ls\u2028", "\x85nel", "\x1fus"]  # padding of every kind str.strip() removes


BIG_RATE = 0.004
HNAMES = ["h0", "h1", "h2", "h3", "h0", "h1", "{h}", "%s", "50%"]  # (tier names are free text: braces and percent signs are nothing special)


class TierHistory:
    def __init__(self, rng, grid, observer=None, pool_max=8, hostile=True):
        from praatio.data_classes.interval_tier import IntervalTier
        from praatio.data_classes.point_tier import PointTier
        from praatio.utilities.constants import Interval, Point

        self.I, self.P, self.Interval, self.Point = IntervalTier, PointTier, Interval, Point
        self.rng = rng
        self.grid = grid
        self.obs = observer
        self.pool = []
        self.pool_max = pool_max
        self.hostile = hostile
        self.hi = 1.0 if grid else 5.0
        if grid:
            self.src = lambda hi=None: rng.randrange(0, 17) * gen.UNIT / 2
        else:
            self.src = gen.rand_time_source(rng)[1]
            self.srcname = None
        for _ in range(3):
            self._add(self._construct())

    # -- generators ------------------------------------------------------
    def time(self, t=None):
        r = self.rng
        if t is not None and len(t.entries) and r.random() < 0.6:
            e = r.choice(t.entries)
            v = e[r.randrange(0, len(e) - 1)]
            x = r.random()
            if self.hostile and not self.grid and x < 0.04 and v > 1:
                return v * (1 + r.choice([-3e-10, 3e-10]))  # nearer to an existing time than the comparison tolerance, yet another time
            if x < 0.7:
                return v
            if x < 0.85 and t.tierType == "IntervalTier":
                return (e[0] + e[1]) / 2
            return v + r.choice([-1, 1]) * (gen.UNIT / 2 if self.grid else r.choice([0.001, 0.01, 0.125]))
        if t is not None and r.random() < 0.3:
            return r.choice([t.minTimestamp, t.maxTimestamp])
        return self.src(self.hi)

    def label(self):
        r = self.rng
        if self.hostile and r.random() < 0.08:
            return r.choice(HOSTILE_LABELS)
        return r.choice(LABELS)

    def _construct(self):
        r = self.rng
        n = r.randrange(0, 5)
        if r.random() < 0.65:
            pts = sorted({self.src(self.hi) for _ in range(2 * n + 2)})
            ents = []
            i = 0
            while len(ents) < n and i + 1 < len(pts):
                if pts[i + 1] - pts[i] > 1e-6:
                    ents.append((pts[i], pts[i + 1], self.label()))
                i += r.choice((1, 2))
            klass = self.I
        else:
            raw = sorted({self.src(self.hi) for _ in range(n)})
            pts = []
            for x in raw:
                if not pts or x - pts[-1] > 1e-6:
                    pts.append(x)
            ents = [(t, self.label()) for t in pts]
            klass = self.P
        if self.hostile and not self.grid and r.random() < BIG_RATE:
            # a tier of realistic size: a phone tier of a long recording has a thousand entries and more (and sizes just above 64 and
            # 1024 are where a fast path for "large" inputs would begin)
            n = r.choice([r.randrange(64, 90)] * 7 + [r.randrange(1024, 1100)])
            w = self.hi / (2.2 * n)
            pos, ents = 0.0, []
            for _k in range(n):
                if r.random() < 0.3:
                    pos = round(pos + w * r.choice([0.5, 1.0]), 9)
                a = pos
                pos = round(pos + w * r.choice([0.5, 1.0, 1.5]), 9)
                ents.append((a, pos, self.label()) if klass is self.I else (a, self.label()))
            return self._run("construct", None, klass, (r.choice(HNAMES), ents, 0.0, r.choice([None, self.hi])))
        if self.hostile and not self.grid and r.random() < 0.06:
            # a run of same-labelled entries far from zero whose times differ by less than the library's comparison tolerance
            # (1e-9 relative) - pitch pulses, analysis frames - handed over in any order: they are distinct entries and the tier that
            # comes back holds them in time order
            t0 = r.choice([1000.0, 65536.0, 1.0e6])
            step = t0 * r.choice([1e-10, 3e-10])
            m = r.randrange(2, 5)
            lab = self.label()
            if klass is self.I:
                ents = [(t0 + k * step, t0 + (k + 1) * step, lab) for k in range(m)]
            else:
                ents = [(t0 + k * step, lab) for k in range(m)]
            ents = ents[::-1] if r.random() < 0.6 else r.sample(ents, len(ents))
            return self._run("construct", None, klass, (r.choice(HNAMES), ents, r.choice([0.0, None]), r.choice([None, 2 * t0])))
        if self.hostile and klass is self.I and len(ents) >= 2 and r.random() < 0.12:
            # arbitrary entry lists: overlaps (also by a few ulps), degenerate and reversed intervals, unsorted input.
            # A sound constructor raises or repairs; it never hands back an ill-formed tier.
            import math

            i = r.randrange(len(ents) - 1)
            a, b = ents[i], ents[i + 1]
            kind = r.choice(["ulp-overlap", "ulp-overlap", "overlap", "degenerate", "reversed", "unsorted", "rel-1e-15-overlap", "one-ulp-sliver"])
            if kind == "ulp-overlap":
                ents[i + 1] = (math.nextafter(a[1], 0), b[1], b[2])
            elif kind == "rel-1e-15-overlap":
                ents[i + 1] = (a[1] * (1 - 2e-15) if a[1] > 0 else a[1], b[1], b[2])
            elif kind == "one-ulp-sliver":
                # well-formed, this one: an interval exactly one ulp long (moved far enough along the axis it has no length left - an
                # operation then refuses, or keeps it apart; it does not hand back an interval without length)
                ents[i] = (a[0], math.nextafter(a[0], math.inf), a[2])
            elif kind == "overlap":
                ents[i + 1] = ((a[0] + a[1]) / 2, b[1], b[2])
            elif kind == "degenerate":
                ents[i] = (a[0], a[0], a[2])
            elif kind == "reversed":
                ents[i] = (a[1], a[0], a[2])
            else:
                ents[i], ents[i + 1] = ents[i + 1], ents[i]
        x = r.random()
        if self.hostile and x > 0.9:
            # the entries arrive as a one-shot iterable (zip over columns, a generator) - they can be read once
            cols = list(zip(*ents)) if ents else []
            ents = (e for e in list(ents)) if r.random() < 0.5 or not cols else zip(*cols)
        elif x < 0.15:
            ents = [list(e) for e in ents]  # lists instead of tuples
        elif x < 0.30:
            # ready-made namedtuples with float times, as another tier's .entries would hand them over - the label of one of them is
            # whatever the caller put there
            nt = self.Interval if klass is self.I else self.Point
            ents = [nt(*[float(v) for v in e[:-1]], e[-1]) for e in ents]
            if ents and r.random() < 0.4:
                i = r.randrange(len(ents))
                ents[i] = nt(*ents[i][:-1], r.choice([" pad", "pad \n", "\tx y\t"]))
        if self.hostile and isinstance(ents, list) and ents and r.random() < 0.03 and all(isinstance(e, tuple) for e in ents):
            # a time axis that ends at zero (times counted back from an event), or a tier that consists of one mark at time 0: the
            # tier's end is exactly 0
            if klass is self.P and r.random() < 0.4:
                return self._run("construct", None, klass, (r.choice(HNAMES), [(0.0, ents[0][-1])], None, None))
            top = ents[-1][-2]
            moved = [tuple(v - top for v in e[:-1]) + (e[-1],) for e in ents]
            if all(e[0] < e[-2] for e in moved) or klass is self.P:
                return self._run("construct", None, klass, (r.choice(HNAMES), moved, r.choice([None, moved[0][0] - 0.5]), r.choice([None, 0.0, 0])))
        lo = r.choice([0.0, 0.0, None, self.src(self.hi) / 4])
        hi = r.choice([self.hi, None, self.hi + self.src(self.hi)])
        if not ents and (lo is None or hi is None):
            if self.hostile and isinstance(ents, list) and r.random() < 0.3:
                # no entries and only one end of the span (or neither): there is no tier to build - refused, with one of the library's errors
                self._run("construct", None, klass, (r.choice(HNAMES), [], lo, hi))
            lo, hi = 0.0, self.hi
        return self._run("construct", None, klass, (r.choice(HNAMES), ents, lo, hi))

    def _add(self, t):
        if t is None or not hasattr(t, "_entries"):
            return
        if len(t._entries) > 10:
            # tiers stay small as a rule (the models are exact, not fast); at most two tiers of realistic size live in a pool
            if len(t._entries) < 64 or sum(1 for x in self.pool if len(x._entries) >= 64) >= 2:
                return
            if len(t._entries) >= 1000 and any(len(x._entries) >= 1000 for x in self.pool):
                return  # (one tier of a thousand entries at a time: operations between two of them cost seconds)
        self.pool.append(t)
        if len(self.pool) > self.pool_max:
            self.pool.pop(self.rng.randrange(len(self.pool)))

    def _run(self, op, recv, fn, args):
        if self.obs:
            self.obs.before(op, recv, args, self.pool)
        res, exc = None, None
        self.nrun = getattr(self, "nrun", 0) + 1
        if self.nrun % 13 == 0:  # mode names as equal-but-not-identical strings (see checks.common.fresh_strings)
            args = tuple((x + "_")[:-1] if isinstance(x, str) and 1 < len(x) <= 24 else x for x in args)
        try:
            res = fn(*args)
        except Exception as e:
            exc = e
        if self.obs:
            self.obs.after(op, recv, args, res, exc, self.pool)
        return res

    def _probe(self, t):
        """queries and copy-returning operations on a tier right before / after an in-place edit: a cached view that
        survives a mutation shows up in whichever monitor judges the call"""
        r = self.rng
        isint = t.tierType == "IntervalTier"
        a, b = sorted((self.time(t), self.time(t)))
        if a == b:
            b = a + (gen.UNIT if self.grid else 0.25)
        self._run("crop", t, t.crop, (a, b, r.choice(("strict", "lax", "truncated")), r.random() < 0.5))
        self._run("timestamps", t, lambda: t.timestamps, ())
        self._run("find", t, t.find, (r.choice(["a", "b"]), False, False))
        other = self._pick(t.tierType)
        if other is not None and other is not t:
            if isint:
                self._run("intersection", t, t.intersection, (other,))
                self._run("mergeLabels", other, other.mergeLabels, (t,))
                self._run("difference", t, t.difference, (other,))
            self._run("union", other, other.union, (t,))
        anyother = self._pick()
        if anyother is not None and len(t.entries):
            d = r.choice([gen.UNIT / 2, gen.UNIT]) if self.grid else r.choice([0.005, 0.01, 0.125])
            self._run("dejitter", anyother, anyother.dejitter, (t, d))
        if isint and len(t.entries):
            self._run("getNonEntries", t, t.getNonEntries, ())

    def _pick(self, kind=None):
        cands = [t for t in self.pool if kind is None or t.tierType == kind]
        return self.rng.choice(cands) if cands else None

    # -- one step ----------------------------------------------------------
    def step(self):
        r = self.rng
        op = r.choice(TIER_OPS)
        t = self._pick()
        if t is None or op == "construct":
            self._add(self._construct())
            return
        isint = t.tierType == "IntervalTier"
        if op == "new" and r.random() < 0.2:
            # a copy made by the standard library instead of by the tier: it must behave like the tier it was made from
            import copy
            import pickle

            res = self._run("copy", t, (lambda: copy.deepcopy(t)) if r.random() < 0.5 else (lambda: pickle.loads(pickle.dumps(t))), ())
        elif op == "new":
            kw = {}
            if r.random() < 0.5:
                kw["name"] = "n%d" % r.randrange(3)
            if r.random() < 0.5:
                src_t = self._pick(t.tierType) or t
                kw["entries"] = [tuple(e) for e in src_t.entries]
            if r.random() < 0.4:
                kw["minTimestamp"] = r.choice([0.0, self.src(self.hi) / 2])
            if r.random() < 0.4:
                kw["maxTimestamp"] = r.choice([self.hi, self.src(self.hi), t.maxTimestamp + self.src(self.hi)])
            res = self._run(op, t, lambda: t.new(**kw), ())
        elif op == "crop":
            a, b = self.time(t), self.time(t)
            if a > b and r.random() < 0.9:
                a, b = b, a
            res = self._run(op, t, t.crop, (a, b, r.choice(("strict", "lax", "truncated")), r.random() < 0.5))
        elif op == "eraseRegion":
            a, b = sorted((self.time(t), self.time(t)))
            res = self._run(op, t, t.eraseRegion, (a, b, r.choice(("truncate", "categorical", "error")), r.random() < 0.6))
        elif op == "insertSpace":
            d = r.choice([gen.UNIT, gen.UNIT / 2, 1.0]) if self.grid else r.choice([0.001, 0.1, 1 / 3, 1.0])
            res = self._run(op, t, t.insertSpace, (self.time(t), d, r.choice(("stretch", "split", "no_change", "error"))))
        elif op == "editTimestamps":
            off = r.choice([-1, 1]) * (self.src(self.hi) if r.random() < 0.7 else self.time(t))
            if self.hostile and not self.grid and r.random() < 0.1:
                off = r.choice([7200.0, 86400.0, 1.0e6, -7200.0])  # the excerpt is put back on the time axis of the recording it came from
            res = self._run(op, t, t.editTimestamps, (off, r.choice(("silence", "warning", "error"))))
        elif op == "insertEntry":
            lab = self.label()
            if isint:
                a, b = self.time(t), self.time(t)
                if a > b:
                    a, b = b, a
                if a == b and r.random() < 0.8:
                    b = a + (gen.UNIT / 2 if self.grid else 0.05)
                if r.random() < 0.1:
                    b = b + self.hi  # reaches outside the span
                raw = (a, b, lab)
                entry = r.choice([self.Interval(*raw), raw, list(raw)])
                if self.grid and r.random() < 0.05:
                    entry = (int(a), int(a) + 1, lab)
            else:
                x = self.time(t) if r.random() < 0.85 else t.maxTimestamp + self.src(self.hi)
                raw = (x, lab)
                entry = r.choice([self.Point(*raw), raw, list(raw)])
            cm = r.choice(("replace", "merge", "error"))
            rm = r.choice(("silence", "warning", "warning", "error")) if self.hostile else r.choice(("silence", "warning"))
            probe = r.random() < 0.5
            if probe:
                self._probe(t)
            self._run(op, t, t.insertEntry, (entry, cm, rm))
            if probe:
                self._probe(t)
            res = None
        elif op == "deleteEntry":
            if len(t.entries) and r.random() < 0.85:
                entry = r.choice(t.entries)
            else:
                entry = self.Interval(self.time(t), self.time(t) + 7.0, "zz") if isint else self.Point(self.time(t) + 7.0, "zz")
            probe = r.random() < 0.6
            if probe:
                self._probe(t)
            self._run(op, t, t.deleteEntry, (entry,))
            if probe:
                self._probe(t)
            res = None
        elif op in ("union", "appendTier", "dejitter"):
            other = self._pick(t.tierType if (op != "dejitter" and r.random() < 0.9) else None) or t
            if r.random() < 0.12:
                other = t  # the same object as both operands
            if op == "dejitter":
                d = r.choice([gen.UNIT / 2, gen.UNIT, gen.UNIT / 4]) if self.grid else r.choice([0.001, 0.005, 0.01, 0.125])
                res = self._run(op, t, t.dejitter, (other, d))
            else:
                res = self._run(op, t, getattr(t, op), (other,))
        elif op in ("difference", "intersection", "mergeLabels", "morph"):
            if not isint:
                t = self._pick("IntervalTier")
                if t is None:
                    return
            other = self._pick("IntervalTier") or t
            if r.random() < 0.12:
                other = t  # the same object as both operands
            if op == "morph":
                cands = [u for u in self.pool if u.tierType == "IntervalTier" and len(u.entries) == len(t.entries)]
                if cands and r.random() < 0.85:
                    other = r.choice(cands)
                filt = r.choice([None, None, lambda lab: lab in ("a", "b")])
                res = self._run(op, t, t.morph, (other, filt))
            else:
                res = self._run(op, t, getattr(t, op), (other,))
        elif op == "find":
            res = self._run(op, t, t.find, (r.choice(["a", "b", "A", "[ab]", ""]), r.random() < 0.5, r.random() < 0.3))
            res = None
        elif op == "timestamps":
            self._run(op, t, lambda: t.timestamps, ())
            res = None
        elif op == "entries":
            self._run(op, t, lambda: (t.entries, len(t), list(iter(t))), ())
            res = None
        elif op == "getNonEntries":
            if isint and len(t.entries):
                self._run(op, t, t.getNonEntries, ())
            res = None
        elif op == "getValues":
            data = [(self.src(self.hi), i) for i in range(r.randrange(1, 6))]
            if isint:
                self._run(op, t, t.getValuesInIntervals, (data,))
            else:
                self._run(op, t, t.getValuesAtPoints, (data, r.random() < 0.5))
            res = None
        elif op == "validate":
            self._run(op, t, t.validate, (r.choice(("silence", "warning", "error")),))
            res = None
        elif op == "eq":
            other = self._pick() or t
            self._run(op, t, lambda: (t == other, other == t, t == 3), ())
            res = None
        else:
            res = None
        self._add(res)


def run_histories(rng, n, steps=12, hostile=False, observer=None):
    """Drive n seeded histories; whatever monitors are attached to the real classes judge every call made on objects
    that carry a history (objects that were mutated in place, or produced by earlier operations)."""
    for h in range(n):
        H = TierHistory(rng, h % 2 == 0, observer, hostile=hostile)
        for _ in range(steps):
            H.step()


class RefusedEditFrame:
    """history-level clause shared by the tier-operation properties: they are stated over tiers "reachable by histories", and a
    history may contain edits the library refused.  A refused insertEntry / deleteEntry must leave the tier as it was - otherwise every
    later operation of the history starts from a tier nobody built."""

    def __init__(self, prop):
        self.prop = prop

    def before(self, op, recv, args, pool):
        from vmon import snap

        self.s = snap.tier_snap(recv) if op in ("insertEntry", "deleteEntry") and snap.is_tier(recv) else None
        self.args = snap.any_snap(list(args))

    def after(self, op, recv, args, res, exc, pool):
        from vmon import snap
        from vmon.core import REC

        if self.s is None or exc is None:
            return
        now = snap.tier_snap(recv)
        case = {"call": "refused-edit", "op": op, "tier": self.s, "args": self.args}
        if now != self.s:
            REC.violation(self.prop, "history.refused-edit", op, case, "%s raised %s but changed the tier that the rest of the history operates on: %r -> %r" % (
                op, type(exc).__name__, self.s["entries"], now["entries"]), ("refused-edit", op), {"op": op, "refused_edit": True})
        else:
            REC.held("history.refused-edit", ("refused-edit", op, type(exc).__name__), None, None)


def replay_refused_edit(v):
    from vmon import snap

    c = v["case"]
    t = snap.build_tier(c["tier"])
    obs = RefusedEditFrame(v["property"])
    args = tuple(tuple(a) if isinstance(a, list) else a for a in c["args"])
    obs.before(c["op"], t, args, [])
    exc = None
    try:
        getattr(t, c["op"])(*args)
    except Exception as e:
        exc = e
    obs.after(c["op"], t, args, None, exc, [])

"""C15 - queries and derived views agree with their definitions."""
import contextlib
import io
import math
import re

from vmon import core, snap
from vmon.core import REC, SKIP
from models import tiers as M
from workloads import gen
from checks.common import num, call, ents_of, desc, make_tier, rand_tier, rand_textgrid

PROP = "C15"
NSHARDS = {"quick": 8, "thorough": 16}
TIMEOUT = {"quick": 600, "thorough": 3600}
F = M.F
RULE = (
    "case = one monitored query call (find, getNonEntries, timestamps, getValuesInIntervals, getValuesAtPoints, utils.getValueAtTime, "
    "utils.getValuesInInterval, utils.intervalOverlapCheck, utils.invertIntervalList, __eq__ of Interval/Point/tiers/Textgrid, validate "
    "of tiers and Textgrid) judged against its definition; generated from dyadic-grid and decimal tiers, queries over a 3-letter "
    "alphabet and a handful of regexes, sample series sorted/shuffled with ties and samples exactly on boundaries, interval lists "
    "with bounds, single-field perturbations for equality and injected span/entry corruptions for validate. distinct = (query, "
    "argument class, outcome class, size); non-trivial = the tier / list has at least one entry."
)
ASSUMPTIONS = [
    "equality: identical snapshots must be equal; a change of name, type, label, count, or of a timestamp by more than 1e-6 relative must be unequal; smaller perturbations may go either way (D13)",
    "invertIntervalList is judged for disjoint intervals inside the bounds; intervalOverlapCheck: each threshold that is given must be met (both, when both are given)",
    "fuzzy sample lookup: any row minimising |time - t| is accepted (ties), float-tie tolerance 4 ulp",
]
EXHAUSTIVE = {"quick": False, "thorough": False}
QUERIES = ["find", "getNonEntries", "timestamps", "getValuesInIntervals", "getValuesAtPoints", "getValueAtTime", "getValuesInInterval",
           "intervalOverlapCheck", "invertIntervalList", "getIntervalsInInterval", "eq", "validate.tier", "validate.textgrid"]


def floors(tier):
    f = {"evals": {"q." + q: 500 for q in QUERIES}, "classes": {}}
    for c in ("eq:identical", "eq:perturbed-name", "eq:perturbed-label", "eq:perturbed-time", "eq:perturbed-count", "eq:other-type",
              "eq:foreign", "eq:symmetry-pair", "eq:textgrid-without-tiers", "eq:ne-is-negation", "validate:corrupt-span", "validate:corrupt-order", "validate:corrupt-out-of-span",
              "validate:corrupt-degenerate", "validate:corrupt-overlap", "validate:clean", "validate:error-mode-raises", "samples:on-boundary", "samples:ties",
              "invert:touching", "invert:empty", "invert:at-bounds", "invert:bound-exactly-zero", "overlap:all-relations", "find:regex", "find:substr", "fuzzy:tie", "requery-after-mutation"):
        f["classes"]["C15:" + c] = 30
    return f


def _wf(s):
    return snap.wellformed_tier_snap(s)


def viol(mon, op, case, msg, sig, **mech):
    REC.violation(PROP, mon, op, case, msg, sig, dict(mech, op=op))


# ---------------- find / timestamps / getNonEntries ---------------------------------
def _tier_pre(ctx):
    t = ctx.self_
    if not snap.is_tier(t):
        return SKIP
    s = snap.tier_snap(t)
    if not _wf(s):
        REC.skip("q." + ctx.name.split(".")[-1], "ill-formed-receiver")
        return SKIP
    return s


def _find_post(ctx):
    s = ctx.pre
    q, sub, use_re = ctx.arg(0, "matchLabel"), ctx.arg(1, "substrMatchFlag", False), ctx.arg(2, "usingRE", False)
    if not isinstance(q, str):
        return
    labels = [e[-1] for e in s["entries"]]
    try:
        if use_re is True:
            exp = [i for i, l in enumerate(labels) if re.search(q, l, re.I) is not None]
        elif sub:
            exp = [i for i, l in enumerate(labels) if q in l]
        else:
            exp = [i for i, l in enumerate(labels) if l == q]
    except re.error:
        REC.skip("q.find", "bad-regex")
        return
    case = {"call": "find", "tier": s, "q": q, "sub": bool(sub), "re": bool(use_re)}
    sig = ("find", q, bool(sub), bool(use_re), tuple(labels))
    if ctx.exc is not None or list(ctx.result) != exp:
        viol("q.find", "find", case, "find(%r, %r, %r) gave %s, expected %r for labels %r" % (q, sub, use_re, desc(ctx.result, ctx.exc), exp, labels), sig)
    else:
        REC.held("q.find", sig if labels else None, "C15:find:regex" if use_re is True else ("C15:find:substr" if sub else None), case)


def _ts_post(ctx):
    s = ctx.pre
    exp = sorted({v for e in s["entries"] for v in e[:-1]})
    case = {"call": "timestamps", "tier": s}
    sig = ("ts", s["t"], len(s["entries"]), len(exp))
    if ctx.exc is not None or list(ctx.result) != exp or any(type(a) is not type(b) and a != b for a, b in zip(ctx.result, exp)):
        viol("q.timestamps", "timestamps", case, "timestamps gave %s, expected %r" % (desc(ctx.result, ctx.exc), exp), sig)
    else:
        REC.held("q.timestamps", sig if exp else None, None, case)


def _gne_post(ctx):
    s = ctx.pre
    ents = ents_of(s)
    if s["t"] != "I" or not ents or s["min"] < 0:
        REC.skip("q.getNonEntries", "no-entries-or-not-interval")
        return
    exp = []
    cur = 0.0
    for st, en, _ in ents:
        if st > cur:
            exp.append((cur, st, ""))
        cur = en
    if cur < s["max"]:
        exp.append((cur, s["max"], ""))
    case = {"call": "getNonEntries", "tier": s}
    sig = ("gne", tuple(gen.cmp3(a[1], b[0]) for a, b in zip(ents, ents[1:])), ents[0][0] > 0, ents[-1][1] < s["max"])
    if ctx.exc is not None:
        viol("q.getNonEntries", "getNonEntries", case, "raised %s: %s" % (type(ctx.exc).__name__, ctx.exc), sig)
        return
    obs = [tuple(e) for e in ctx.result]
    why = M.entries_close(obs, exp, 1.0)
    if why is None:
        allp = sorted([(e[0], e[1]) for e in ents] + [(o[0], o[1]) for o in obs])
        if any(not a < b for a, b in allp) or allp[0][0] != 0 or allp[-1][1] != s["max"] or any(x[1] != y[0] for x, y in zip(allp, allp[1:])):
            why = "entries and non-entries do not tile [0, %r]" % s["max"]
    if why:
        viol("q.getNonEntries", "getNonEntries", case, "%s; observed %r expected %r" % (why, obs, exp), sig)
    else:
        REC.held("q.getNonEntries", sig, None, case)


# ---------------- sample lookups -------------------------------------------------------
def _rows(data):
    try:
        rows = [tuple(r) for r in data]
    except TypeError:
        return None
    if not all(len(r) >= 1 and num(r[0]) for r in rows):
        return None
    return rows


def _gvi_post(ctx):
    s = ctx.pre
    rows = _rows(ctx.arg(0, "dataTupleList"))
    if s["t"] != "I" or rows is None:
        return
    ents = ents_of(s)
    exp = [(e, [r for r in rows if e[0] <= r[0] <= e[1]]) for e in ents]
    case = {"call": "getValuesInIntervals", "tier": s, "data": [list(r) for r in rows]}
    bounds = {v for e in ents for v in e[:2]}
    classes = []
    if any(r[0] in bounds for r in rows):
        classes.append("C15:samples:on-boundary")
    if len({r[0] for r in rows}) < len(rows):
        classes.append("C15:samples:ties")
    sig = ("gvi", len(ents), len(rows), tuple(classes), rows == sorted(rows))
    ok = ctx.exc is None
    if ok:
        try:
            obs = [(tuple(i), [tuple(r) for r in rs]) for i, rs in ctx.result]
            ok = obs == [(tuple(e), rs) for e, rs in exp]
        except Exception:
            ok = False
    if not ok:
        viol("q.getValuesInIntervals", "getValuesInIntervals", case, "gave %s, expected %r" % (desc(ctx.result, ctx.exc), exp), sig)
    else:
        REC.held("q.getValuesInIntervals", sig if ents and rows else None, classes, case)


def _nearest_ok(t, rows, row):
    if row not in rows:
        return False
    dmin = min(abs(F(r[0]) - F(t)) for r in rows)
    tol = F(math.ulp(max(abs(t), max(abs(r[0]) for r in rows), 1e-300))) * 4
    return abs(F(row[0]) - F(t)) <= dmin + tol


def _gvp_post(ctx):
    s = ctx.pre
    rows = _rows(ctx.arg(0, "dataTupleList"))
    fuzzy = ctx.arg(1, "fuzzyMatching", False)
    if s["t"] != "P" or rows is None or not isinstance(fuzzy, bool) or (fuzzy and not rows):
        return
    pts = ents_of(s)
    case = {"call": "getValuesAtPoints", "tier": s, "data": [list(r) for r in rows], "fuzzy": fuzzy}
    classes = []
    if any(r[0] == p[0] for r in rows for p in pts):
        classes.append("C15:samples:on-boundary")
    if len({r[0] for r in rows}) < len(rows):
        classes.append("C15:samples:ties")
    sig = ("gvp", fuzzy, len(pts), len(rows), tuple(classes))
    if ctx.exc is not None:
        viol("q.getValuesAtPoints", "getValuesAtPoints", case, "raised %s: %s" % (type(ctx.exc).__name__, ctx.exc), sig)
        return
    try:
        obs = [tuple(r) for r in ctx.result]
    except Exception:
        obs = None
    why = None
    if obs is None or len(obs) != len(pts):
        why = "result %r does not have one row per point" % (ctx.result,)
    else:
        for (t, _), row in zip(pts, obs):
            if not fuzzy:
                hits = [r for r in rows if r[0] == t]
                if (hits and row not in hits) or (not hits and row != ()):
                    why = "point %r got %r, rows at that time %r" % (t, row, hits)
                    break
            else:
                if not _nearest_ok(t, rows, row):
                    why = "point %r got %r which is not a nearest row of %r" % (t, row, rows)
                    break
                ds = sorted(abs(F(r[0]) - F(t)) for r in rows)
                if len(ds) > 1 and ds[0] == ds[1]:
                    classes.append("C15:fuzzy:tie")
    if why:
        viol("q.getValuesAtPoints", "getValuesAtPoints", case, why, sig)
    else:
        REC.held("q.getValuesAtPoints", sig if pts and rows else None, classes, case)


def _gvat_pre(ctx):
    t, rows, fuzzy, startI = ctx.arg(0, "timestamp"), _rows(ctx.arg(1, "sortedDataTupleList")), ctx.arg(2, "fuzzyMatching", False), ctx.arg(3, "startI", 0)
    if not num(t) or rows is None or startI != 0 or rows != sorted(rows, key=lambda r: r[0]) or (fuzzy and not rows):
        REC.skip("q.getValueAtTime", "outside-domain")
        return SKIP
    return (t, rows, fuzzy)


def _gvat_post(ctx):
    t, rows, fuzzy = ctx.pre
    case = {"call": "getValueAtTime", "t": t, "data": [list(r) for r in rows], "fuzzy": fuzzy}
    sig = ("gvat", fuzzy, len(rows), tuple(gen.cmp3(t, r[0]) for r in rows))
    if ctx.exc is not None:
        viol("q.getValueAtTime", "getValueAtTime", case, "raised %s: %s" % (type(ctx.exc).__name__, ctx.exc), sig)
        return
    try:
        row = tuple(ctx.result[0])
    except Exception:
        viol("q.getValueAtTime", "getValueAtTime", case, "returned %r" % (ctx.result,), sig)
        return
    if fuzzy:
        ok = _nearest_ok(t, rows, row)
    else:
        hits = [r for r in rows if r[0] == t]
        ok = (row in hits) if hits else row == ()
    if not ok:
        viol("q.getValueAtTime", "getValueAtTime", case, "time %r got %r from %r" % (t, row, rows), sig)
    else:
        REC.held("q.getValueAtTime", sig if rows else None, None, case)


def _gvii_pre(ctx):
    rows, a, b = _rows(ctx.arg(0, "dataTupleList")), ctx.arg(1, "start"), ctx.arg(2, "end")
    if rows is None or not (num(a) and num(b)):
        return SKIP
    return (rows, a, b)


def _gvii_post(ctx):
    rows, a, b = ctx.pre
    exp = [r for r in rows if a <= r[0] <= b]
    case = {"call": "getValuesInInterval", "data": [list(r) for r in rows], "a": a, "b": b}
    sig = ("gvii", tuple((gen.cmp3(r[0], a), gen.cmp3(r[0], b)) for r in rows))
    if ctx.exc is not None or [tuple(r) for r in ctx.result] != exp:
        viol("q.getValuesInInterval", "getValuesInInterval", case, "gave %s, expected %r" % (desc(ctx.result, ctx.exc), exp), sig)
    else:
        REC.held("q.getValuesInInterval", sig if rows else None, None, case)


# ---------------- interval helpers -----------------------------------------------------
def _ioc_pre(ctx):
    a, b = ctx.arg(0, "interval"), ctx.arg(1, "cmprInterval")
    pct, tt, incl = ctx.arg(2, "percentThreshold", 0), ctx.arg(3, "timeThreshold", 0), ctx.arg(4, "boundaryInclusive", False)
    try:
        a, b = tuple(a)[:2], tuple(b)[:2]
    except TypeError:
        return SKIP
    if not all(num(x) for x in a + b) or not (a[0] < a[1] and b[0] < b[1]) or not (num(pct) and num(tt)) or pct < 0 or tt < 0:
        REC.skip("q.intervalOverlapCheck", "outside-domain")
        return SKIP
    return (a, b, pct, tt, bool(incl))


def _ioc_post(ctx):
    a, b, pct, tt, incl = ctx.pre
    ov = max(F(0), min(F(a[1]), F(b[1])) - max(F(a[0]), F(b[0])))
    exp = ov > 0
    band = False
    # each threshold, when given, is a further condition on an overlap that exists ("if the intervals overlap, they must overlap
    # by at least this threshold"); given together, both have to be met
    if exp and pct > 0:
        total = max(F(a[1]), F(b[1])) - min(F(a[0]), F(b[0]))
        ratio = ov / total
        band = abs(ratio - F(pct)) <= F(1, 10 ** 12)
        exp = ratio >= F(pct)
    if ov > 0 and tt > 0:
        band = band or abs(ov - F(tt)) <= F(math.ulp(max(abs(x) for x in a + b))) * 4
        exp = exp and ov >= F(tt)
    if incl and (a[0] == b[1] or a[1] == b[0]):
        exp, band = True, False
    case = {"call": "intervalOverlapCheck", "a": list(a), "b": list(b), "pct": pct, "tt": tt, "incl": incl}
    sig = ("ioc", gen.cmp3(a[0], b[0]), gen.cmp3(a[0], b[1]), gen.cmp3(a[1], b[0]), gen.cmp3(a[1], b[1]), pct > 0, tt > 0, incl, bool(exp))
    if ctx.exc is not None or (not band and bool(ctx.result) != bool(exp)):
        viol("q.intervalOverlapCheck", "intervalOverlapCheck", case, "intervalOverlapCheck(%r, %r, percentThreshold=%r, timeThreshold=%r, boundaryInclusive=%r) gave %s, expected %r" % (a, b, pct, tt, incl, desc(ctx.result, ctx.exc), bool(exp)), sig)
    else:
        REC.held("q.intervalOverlapCheck", sig, None, case)


def _giv_pre(ctx):
    a, b, ivs, mode = ctx.arg(0, "start"), ctx.arg(1, "end"), ctx.arg(2, "intervals"), ctx.arg(3, "mode")
    if not (num(a) and num(b)) or mode not in ("strict", "lax", "truncated") or a >= b:
        return SKIP
    try:
        ents = [tuple(e) for e in ivs]
        ok = all(len(e) == 3 and num(e[0]) and num(e[1]) and e[0] < e[1] for e in ents) and all(x[1] <= y[0] for x, y in zip(ents, ents[1:]))
    except Exception:
        return SKIP
    if not ok:
        REC.skip("q.getIntervalsInInterval", "intervals-not-sorted-and-disjoint")
        return SKIP
    return (ents, a, b, mode)


def _giv_post(ctx):
    """the interval helper behind crop: which of the given intervals lie in / overlap / are cut by [a, b] - by interval arithmetic"""
    ents, a, b, mode = ctx.pre
    exp = []
    for s0, e0, lab in ents:
        if e0 <= a or s0 >= b:
            continue
        inside = s0 >= a and e0 <= b
        if mode == "strict":
            if inside:
                exp.append((s0, e0, lab))
        elif mode == "lax":
            exp.append((s0, e0, lab))
        else:
            exp.append((max(s0, a), min(e0, b), lab))
    case = {"call": "getIntervalsInInterval", "ents": [list(e) for e in ents], "a": a, "b": b, "mode": mode}
    sig = ("giv", mode, gen.order_type((a, b), ents))
    got = None
    if ctx.exc is None:
        try:
            got = [tuple(e) for e in ctx.result]
        except Exception:
            got = None
    if got != exp:
        viol("q.getIntervalsInInterval", "getIntervalsInInterval", case, "getIntervalsInInterval(%r, %r, %r, %r) gave %s, expected %r" % (a, b, ents, mode, desc(ctx.result, ctx.exc), exp), sig)
    else:
        REC.held("q.getIntervalsInInterval", sig if ents else None, None, case)


def _inv_pre(ctx):
    lst, lo, hi = ctx.arg(0, "inputList"), ctx.arg(1, "minValue", None), ctx.arg(2, "maxValue", None)
    try:
        ivs = [tuple(x)[:2] for x in lst]
    except TypeError:
        return SKIP
    if not all(num(a) and num(b) and a < b for a, b in ivs):
        REC.skip("q.invertIntervalList", "degenerate-interval")
        return SKIP
    srt = sorted(ivs)
    if any(x[1] > y[0] for x, y in zip(srt, srt[1:])):
        REC.skip("q.invertIntervalList", "overlapping-intervals")
        return SKIP
    if (lo is not None and not num(lo)) or (hi is not None and not num(hi)):
        return SKIP
    if lo is not None and hi is not None and not lo < hi:
        REC.skip("q.invertIntervalList", "bounds-not-ordered")
        return SKIP
    if srt and ((lo is not None and srt[0][0] < lo) or (hi is not None and srt[-1][1] > hi)):
        REC.skip("q.invertIntervalList", "interval-outside-bounds")
        return SKIP
    if not srt and (lo is None) != (hi is None):
        REC.skip("q.invertIntervalList", "empty-list-with-one-bound")
        return SKIP
    return (ivs, srt, lo, hi)


def _inv_post(ctx):
    ivs, srt, lo, hi = ctx.pre
    exp = []
    if not srt:
        if lo is not None:
            exp = [(lo, hi)]
    else:
        if lo is not None and srt[0][0] > lo:
            exp.append((lo, srt[0][0]))
        for x, y in zip(srt, srt[1:]):
            if x[1] < y[0]:
                exp.append((x[1], y[0]))
        if hi is not None and srt[-1][1] < hi:
            exp.append((srt[-1][1], hi))
    classes = []
    if any(x[1] == y[0] for x, y in zip(srt, srt[1:])):
        classes.append("C15:invert:touching")
    if not srt:
        classes.append("C15:invert:empty")
    if srt and (srt[0][0] == lo or srt[-1][1] == hi):
        classes.append("C15:invert:at-bounds")
    case = {"call": "invertIntervalList", "list": [list(x) for x in ivs], "lo": lo, "hi": hi}
    sig = ("inv", len(srt), tuple(gen.cmp3(x[1], y[0]) for x, y in zip(srt, srt[1:])), lo is None, hi is None,
           bool(srt) and srt[0][0] == lo, bool(srt) and srt[-1][1] == hi, ivs == srt)
    ok = ctx.exc is None
    if ok:
        try:
            ok = [tuple(x) for x in ctx.result] == exp
        except Exception:
            ok = False
    if not ok:
        viol("q.invertIntervalList", "invertIntervalList", case, "gave %s, expected %r" % (desc(ctx.result, ctx.exc), exp), sig)
    else:
        REC.held("q.invertIntervalList", sig if srt else None, classes, case)


# ---------------- equality ---------------------------------------------------------------
def _kind(o):
    if snap.is_tier(o):
        return "tier"
    if snap.is_tg(o):
        return "tg"
    n = type(o).__name__
    return n if n in ("Interval", "Point") else "foreign"


def _val(o):
    k = _kind(o)
    if k == "tier":
        return snap.tier_snap(o)
    if k == "tg":
        return snap.tg_snap(o)
    if k in ("Interval", "Point"):
        return list(o)
    return None


def _num_rel(a, b):
    """'same' | 'noise' | 'diff'"""
    if a == b:
        return "same"
    try:
        d = abs(a - b)
    except TypeError:
        return "diff"
    m = max(abs(a), abs(b))
    if d > 1e-6 * m and d > 1e-12:
        return "diff"
    return "noise"


def _cmp_entries(x, y):
    worst = "same"
    if len(x) != len(y):
        return "diff"
    for a, b in zip(x, y):
        if len(a) != len(b) or a[-1] != b[-1]:
            return "diff"
        for u, v in zip(a[:-1], b[:-1]):
            r = _num_rel(u, v)
            if r == "diff":
                return "diff"
            if r == "noise":
                worst = "noise"
    return worst


def classify_eq(a, b):
    ka, kb = _kind(a), _kind(b)
    if ka != kb or ka == "foreign":
        return "diff" if not (ka == kb == "foreign") else "skip"
    va, vb = _val(a), _val(b)
    if ka in ("Interval", "Point"):
        if va[-1] != vb[-1]:
            return "diff"
        return _cmp_entries([va], [vb])
    if ka == "tier":
        if va["t"] != vb["t"] or va["name"] != vb["name"]:
            return "diff"
        rs = [_num_rel(va["min"], vb["min"]), _num_rel(va["max"], vb["max"]), _cmp_entries(va["entries"], vb["entries"])]
    else:
        if va["keys"] != vb["keys"]:
            return "diff"
        rs = []
        for x, y in ((va["min"], vb["min"]), (va["max"], vb["max"])):  # a textgrid without tiers may have no span yet (None)
            rs.append(("same" if x is y else "diff") if None in (x, y) else _num_rel(x, y))
        for ta, tb in zip(va["tiers"], vb["tiers"]):
            if ta["t"] != tb["t"] or ta["name"] != tb["name"]:
                return "diff"
            rs += [_num_rel(ta["min"], tb["min"]), _num_rel(ta["max"], tb["max"]), _cmp_entries(ta["entries"], tb["entries"])]
    if "diff" in rs:
        return "diff"
    return "noise" if "noise" in rs else "same"


def _eq_pre(ctx):
    a, b = ctx.self_, ctx.arg(0, "other")
    try:
        c = classify_eq(a, b)
    except Exception:
        return SKIP
    if c == "skip":
        return SKIP
    return (c, _val(a), _val(b) if _kind(b) != "foreign" else repr(b)[:40], _kind(a), _kind(b))


def _eq_post(ctx):
    c, va, vb, ka, kb = ctx.pre
    case = {"call": "eq", "a": va, "b": vb, "kinds": [ka, kb], "class": c}
    sig = ("eq", ka, kb, c)
    if ctx.exc is not None:
        viol("q.eq", "__eq__", case, "raised %s: %s" % (type(ctx.exc).__name__, ctx.exc), sig)
        return
    res = ctx.result
    if res is NotImplemented:
        REC.skip("q.eq", "NotImplemented")
        return
    if (c == "same" and not res) or (c == "diff" and res):
        viol("q.eq", "__eq__", case, "%s == %s gave %r but the operands are %s: %r vs %r" % (ka, kb, res, "identical" if c == "same" else "different beyond rounding noise", va, vb), sig)
    else:
        REC.held("q.eq", sig, None, case)


# ---------------- validate ------------------------------------------------------------------
def tier_valid(s):
    prev = None
    for e in s["entries"]:
        if s["t"] == "I":
            if e[0] >= e[1] or (prev is not None and prev[1] > e[0]) or e[0] < s["min"] or e[1] > s["max"]:
                return False
        else:
            if (prev is not None and prev[0] > e[0]) or e[0] < s["min"] or e[0] > s["max"]:
                return False
        prev = e
    return True


def _val_pre(ctx):
    o = ctx.self_
    mode = ctx.arg(0, "reportingMode", "warning")
    if mode not in ("silence", "warning", "error"):
        return SKIP
    try:
        if snap.is_tier(o):
            s = snap.tier_snap(o)
            exp = tier_valid(s)
            mon = "q.validate.tier"
        elif snap.is_tg(o):
            s = snap.tg_snap(o)
            exp = len(set(s["keys"])) == len(s["keys"]) and all(t["min"] == s["min"] and t["max"] == s["max"] and tier_valid(t) for t in s["tiers"])
            mon = "q.validate.textgrid"
        else:
            return SKIP
    except (TypeError, ValueError):
        REC.skip("q.validate", "unreadable-object")
        return SKIP
    return (mon, s, exp, mode)


def _val_post(ctx):
    mon, s, exp, mode = ctx.pre
    case = {"call": "validate", "obj": s, "mode": mode}
    sig = (mon, mode, exp, len(s.get("entries", s.get("tiers", []))))
    if mode == "error" and not exp:
        if ctx.exc is None or not core.is_praatio_error(ctx.exc):
            viol(mon, "validate", case, "invalid object under reportingMode='error' must raise a praatio error, got %s" % desc(ctx.result, ctx.exc), sig)
        else:
            REC.held(mon, sig, "C15:validate:error-mode-raises", case)
        return
    if ctx.exc is not None:
        viol(mon, "validate", case, "validate(%r) raised %s: %s on %s object" % (mode, type(ctx.exc).__name__, ctx.exc, "a valid" if exp else "an invalid"), sig)
        return
    if ctx.result is not exp:
        viol(mon, "validate", case, "validate(%r) returned %r, expected %r for %r" % (mode, ctx.result, exp, s), sig)
        return
    if mode == "silence" and ctx.stdout:
        viol(mon, "validate", case, "validate('silence') printed %r" % ctx.stdout[:80], sig)
        return
    if mode == "warning" and bool(ctx.stdout) != (not exp):
        viol(mon, "validate", case, "validate('warning') printed=%r for a %s object" % (bool(ctx.stdout), "valid" if exp else "invalid"), sig)
        return
    REC.held(mon, sig, "C15:validate:clean" if exp else None, case)


_installed = False


def install():
    global _installed
    if _installed:
        return
    _installed = True
    from praatio.data_classes.interval_tier import IntervalTier
    from praatio.data_classes.point_tier import PointTier
    from praatio.data_classes.textgrid import Textgrid
    from praatio.data_classes.textgrid_tier import TextgridTier
    from praatio.utilities import utils
    from praatio.utilities.constants import Interval, Point

    core.attach(TextgridTier, "find", "q.find", _tier_pre, _find_post)
    core.attach(IntervalTier, "timestamps", "q.timestamps", _tier_pre, _ts_post)
    core.attach(PointTier, "timestamps", "q.timestamps", _tier_pre, _ts_post)
    core.attach(IntervalTier, "getNonEntries", "q.getNonEntries", _tier_pre, _gne_post)
    core.attach(IntervalTier, "getValuesInIntervals", "q.getValuesInIntervals", _tier_pre, _gvi_post)
    core.attach(PointTier, "getValuesAtPoints", "q.getValuesAtPoints", _tier_pre, _gvp_post)
    core.attach(utils, "getValueAtTime", "q.getValueAtTime", _gvat_pre, _gvat_post, method=False)
    core.attach(utils, "getValuesInInterval", "q.getValuesInInterval", _gvii_pre, _gvii_post, method=False)
    core.attach(utils, "intervalOverlapCheck", "q.intervalOverlapCheck", _ioc_pre, _ioc_post, method=False)
    core.attach(utils, "invertIntervalList", "q.invertIntervalList", _inv_pre, _inv_post, method=False)
    core.attach(utils, "getIntervalsInInterval", "q.getIntervalsInInterval", _giv_pre, _giv_post, method=False)
    for klass in (Interval, Point, TextgridTier, Textgrid):
        core.attach(klass, "__eq__", "q.eq", _eq_pre, _eq_post)
    for klass in (IntervalTier, PointTier, Textgrid):
        core.attach(klass, "validate", "q.validate", _val_pre, _val_post, capture_stdout=True)


# ---------------- workload ------------------------------------------------------------------
def workload(tier, rng, shard, nshards, work):
    with contextlib.redirect_stdout(io.StringIO()):
        _workload(tier, rng, shard, nshards)

    # objects that carry a history (mutated in place, or produced by earlier operations): the monitors judge every call made on them
    import contextlib as _cl
    import io as _io
    from workloads.histories import run_histories, RefusedEditFrame

    with _cl.redirect_stdout(_io.StringIO()):
        run_histories(rng, (300 if tier == "quick" else 8000) // nshards, observer=RefusedEditFrame(PROP))


def perturb_tier(rng, t):
    """-> (other tier, class)"""
    from praatio.data_classes.interval_tier import IntervalTier
    from praatio.data_classes.point_tier import PointTier

    ents = [tuple(e) for e in t.entries]
    isint = t.tierType == "IntervalTier"
    klass = IntervalTier if isint else PointTier
    c = rng.choice(["identical", "perturbed-name", "perturbed-label", "perturbed-time", "perturbed-count", "other-type", "noise"])
    lo, hi = t.minTimestamp, t.maxTimestamp
    name = t.name
    if c == "perturbed-name":
        name = name + "x"
    elif c == "perturbed-label" and ents:
        i = rng.randrange(len(ents))
        # (a label is text: "132" and "132.0" are two labels, "nan" is the same label as "nan")
        ents[i] = ents[i][:-1] + ({"132": "132.0", "7": "07", "1000": "1e3", "1e3": "1000", "nan": "NaN", "inf": "Infinity", "a": "A"}.get(ents[i][-1], ents[i][-1] + "q"),)
    elif c == "perturbed-time" and ents:
        i = rng.randrange(len(ents))
        j = rng.randrange(len(ents[i]) - 1)
        v = ents[i][j]
        d = max(abs(v) * 2e-6, 2e-6)
        e = list(ents[i])
        e[j] = v + d if (not isint or j == 1) else max(0.0, v - d) if v - d > (ents[i - 1][1] if i else -1) else v + d / 4
        ents[i] = tuple(e)
        if isint and not ents[i][0] < ents[i][1]:
            return None, None
    elif c == "perturbed-time":
        hi = hi + max(abs(hi) * 2e-6, 2e-6)
    elif c == "perturbed-count":
        if ents and rng.random() < 0.5:
            ents.pop(rng.randrange(len(ents)))
        else:
            ents.append((hi + 0.5, hi + 1.0, "z") if isint else (hi + 0.5, "z"))
            hi = hi + 1.0
            c2 = "perturbed-count"
    elif c == "other-type":
        klass = PointTier if isint else IntervalTier
        ents = [(e[0], e[-1]) for e in ents] if isint else []
    elif c == "noise" and ents:
        i = rng.randrange(len(ents))
        e = list(ents[i])
        e[0] = e[0] * (1 + 1e-13)
        ents[i] = tuple(e)
    elif c in ("perturbed-label", "noise"):
        c = "identical"
    try:
        return klass(name, ents, lo, hi), c
    except Exception:
        return None, None


def _workload(tier, rng, shard, nshards):
    from praatio.data_classes.textgrid import Textgrid
    from praatio.utilities import utils
    from praatio.utilities.constants import Interval, Point

    # every pair of intervals on a 6-point grid (all 13 Allen relations: disjoint, touching, staggered, containing, sharing a start or
    # an end, identical) x thresholds below, at and above the true overlap / overlap ratio
    pts = [0.0, 1.0, 2.0, 3.0, 4.0, 6.0]
    ivs = [(a, b) for a in pts for b in pts if a < b]
    j = 0
    for a in ivs:
        for b in ivs:
            j += 1
            if j % nshards != shard:
                continue
            ov = min(a[1], b[1]) - max(a[0], b[0])
            tot = max(a[1], b[1]) - min(a[0], b[0])
            thr = [(0, 0)]
            if ov > 0:
                thr += [(0, ov), (0, ov / 2), (0, ov + 0.5), (0, ov + 1.0), (0, tot), (ov / tot, 0), (ov / tot / 2, 0), (min(1.0, ov / tot + 0.125), 0), (1.0, 0)]
                thr += [(ov / tot / 2, ov / 2), (ov / tot / 2, ov + 0.5), (min(1.0, ov / tot + 0.125), ov / 2), (min(1.0, ov / tot + 0.125), ov + 0.5)]  # both given
            else:
                thr += [(0, 0.5), (0.25, 0)]
            for pct, tt in thr:
                for incl in (False, True):
                    call(utils.intervalOverlapCheck, Interval(a[0], a[1], "x"), Interval(b[0], b[1], "y"), pct, tt, incl)
            REC.cls("C15:overlap:all-relations")
            for mode in ("strict", "lax", "truncated"):
                # the same pair as (interval, target window) of the helper behind crop, alone and with a neighbour on either side
                call(utils.getIntervalsInInterval, b[0], b[1], [Interval(a[0], a[1], "x")], mode)
                call(utils.getIntervalsInInterval, b[0], b[1], [Interval(a[0] - 1.0, a[0], "w"), Interval(a[0], a[1], "x"), Interval(a[1], a[1] + 1.0, "y")], mode)
    n = (2500 if tier == "quick" else 90000) // nshards
    queries = ["a", "b", "c", "ab", "", "A", "[ab]", "^a", "b$", "a|c", ".", "x"]
    for k in range(n):
        grid = k % 3 == 0
        if grid:
            ents = gen.cells_to_time(rng.choice(gen.grid_tiers(6, 4, ("a", "b"))))
            kind, lo, hi = "I", 0.0, rng.choice([0.75, 1.0])
            if rng.random() < 0.3:
                kind = "P"
                ents = [(e[0], e[2]) for e in ents]
            t = make_tier(kind, "q", ents, lo, hi)
        else:
            kind, ents, lo, hi, t = rand_tier(rng, "q", 5.0, 6, 0.35, ["a", "b", "c", "ab", "Ab", "abc", "", "132", "7", "1000", "nan", "inf", "1e3"], neg=0.06, ties=0.15)  # ("": an unlabelled stretch kept as an entry)
        for _q in range(3):
            call(t.find, rng.choice(queries), rng.random() < 0.4, rng.random() < 0.3)
        _ = t.timestamps
        if ents and rng.random() < 0.08:
            # two boundary times a hair apart (closer than the tolerance entry equality uses): two timestamps, not one
            last = ents[-1]
            x_ = last[-2] * (1 + 5e-10) if last[-2] > 0.5 else last[-2] + 5e-10
            near = make_tier(kind, "q", list(ents) + ([(x_, x_ + 0.25, "nr")] if kind == "I" else [(x_, "nr")]), lo, max(hi, x_ + 0.5))
            REC.cls("C15:timestamps:two-times-a-hair-apart")
            _ = near.timestamps
        if kind == "I":
            call(t.getNonEntries)
            if ents and rng.random() < 0.1:
                # neighbours that nearly touch: what lies between them - a billionth of a second, a few ulps - is unlabelled time all
                # the same, and what lies between two that do touch is nothing
                gap = rng.choice([2.0 ** -30, 3e-9, 5e-12, 0.0])
                e = ents[-1]
                nxt = (e[1] + gap, e[1] + gap + 0.25, "nx")
                REC.cls("C15:getNonEntries:sliver-between-neighbours")
                call(make_tier("I", "q", list(ents) + [nxt], lo, max(hi, nxt[1] + rng.choice([0.0, 2e-9, 0.5]))).getNonEntries)
        # sample series
        bounds = [v for e in ents for v in e[:-1]] or [0.5]
        rows = []
        for i in range(rng.randrange(0, 9)):
            r = rng.random()
            tt = rng.choice(bounds) if r < 0.45 else (rng.choice(bounds) + rng.choice(bounds)) / 2 if r < 0.7 else rng.uniform(0, hi)
            rows.append((tt, i, "v%d" % i))
        if rows and rng.random() < 0.3:
            rows.append((rows[0][0], 99, "dup"))
        if rng.random() < 0.5:
            rng.shuffle(rows)
        else:
            rows.sort()
        if rng.random() < 0.3:
            rows = [list(r) for r in rows]  # rows as lists (as a csv reader or json hands them over), not tuples
            REC.cls("C15:samples:rows-are-lists")
        if kind == "I":
            call(t.getValuesInIntervals, rows)
            if ents:
                e = rng.choice(ents)
                call(utils.getValuesInInterval, rows, e[0], e[1])
        else:
            call(t.getValuesAtPoints, rows, False)
            if rows:
                call(t.getValuesAtPoints, rows, True)
        srows = sorted(rows, key=lambda r: r[0])
        tq = rng.choice(bounds) if rng.random() < 0.6 else rng.uniform(0, hi)
        call(utils.getValueAtTime, tq, srows, False, 0)
        if srows:
            call(utils.getValueAtTime, tq, srows, True, 0)
            if len(srows) > 1 and rng.random() < 0.3:
                call(utils.getValueAtTime, (srows[0][0] + srows[1][0]) / 2, srows, True, 0)
        # interval helpers
        pts = sorted({rng.choice(bounds + [0.0, hi]) for _ in range(4)} | {rng.uniform(0, hi) for _ in range(2)})
        if len(pts) >= 4:
            a = (pts[0], pts[rng.randrange(1, 4)])
            b = (pts[rng.randrange(0, 3)], pts[-1])
            if a[0] < a[1] and b[0] < b[1]:
                r = rng.random()
                pct, tt = (0, 0) if r < 0.5 else (rng.choice([0.1, 0.5, 0.9]), 0) if r < 0.75 else (0, rng.choice([0.01, 0.125, 1.0]))
                call(utils.intervalOverlapCheck, Interval(a[0], a[1], "x"), Interval(b[0], b[1], "y"), pct, tt, rng.random() < 0.4)
                call(utils.intervalOverlapCheck, b, a, 0, 0, rng.random() < 0.4)
        ivs = [(e[0], e[1]) for e in ents] if kind == "I" else []
        if ivs and k % 11 == 0:
            # the same list moved to the left of zero, complemented within bounds that END (or start) at exactly 0
            shiftby = max(x[1] for x in ivs) + rng.choice([0.0, 0.5])
            neg = [(a - shiftby, b - shiftby) for a, b in ivs]
            call(utils.invertIntervalList, neg, min(x[0] for x in neg) - rng.choice([0.0, 1.0]), 0 if k % 2 else 0.0)
            call(utils.invertIntervalList, [(a + shiftby - min(x[0] for x in neg) - shiftby, b - min(x[0] for x in neg)) for a, b in neg][:0] or [(a - min(x[0] for x in neg), b - min(x[0] for x in neg)) for a, b in neg], 0, None)
            REC.cls("C15:invert:bound-exactly-zero")
        if rng.random() < 0.4:
            rng.shuffle(ivs)
        r = rng.random()
        if r < 0.4:
            call(utils.invertIntervalList, ivs, lo if not ivs else min(lo, min(x[0] for x in ivs)), hi)
        elif r < 0.6:
            call(utils.invertIntervalList, ivs, None, None)
        elif r < 0.8 and ivs:
            call(utils.invertIntervalList, ivs, min(x[0] for x in ivs), max(x[1] for x in ivs))
        elif ivs:
            call(utils.invertIntervalList, ivs, rng.choice([None, 0.0]), rng.choice([None, hi + 1.0]))
        else:
            call(utils.invertIntervalList, [], 0.0, hi)
        # equality
        other, c = perturb_tier(rng, t)
        if other is not None:
            REC.cls("C15:eq:" + c if c != "noise" else "C15:eq:identical")
            r1 = t == other
            r2 = other == t
            REC.cls("C15:eq:symmetry-pair")
            if r1 is not r2 and bool(r1) != bool(r2):
                viol("q.eq", "__eq__", {"call": "eq-sym", "a": snap.tier_snap(t), "b": snap.tier_snap(other)}, "equality is not symmetric: a==b is %r, b==a is %r" % (r1, r2), ("sym",))
            _ = t == t
        REC.cls("C15:eq:foreign")
        for foreign in (3, "x", None, (1, 2, "a"), [1, 2]):
            r1 = t == foreign
            r2 = foreign == t
            if bool(r1) or bool(r2):
                viol("q.eq", "__eq__", {"call": "eq-foreign", "a": snap.tier_snap(t), "b": repr(foreign)}, "a tier compared equal to %r" % (foreign,), ("foreign",))
        if ents:
            e = rng.choice(ents)
            ea = (Interval if kind == "I" else Point)(*e)
            eb = (Interval if kind == "I" else Point)(*e)
            _ = ea == eb
            ec = (Interval if kind == "I" else Point)(*(e[:-1] + (e[-1] + "x",)))
            _ = ea == ec
            ed = (Interval if kind == "I" else Point)(*((e[0] + max(2e-6, abs(e[0]) * 2e-6),) + e[1:]))
            _ = (ea == ed, ed == ea, ea == tuple(e), tuple(e) == ea, ea != eb)
            # "!=" is the negation of "==" for entries (equality tolerates rounding noise; inequality must tolerate the same)
            ee = (Interval if kind == "I" else Point)(*((e[0] * (1 + 2e-13) if e[0] else 1e-300,) + e[1:]))
            for x, y in ((ea, eb), (ea, ec), (ea, ed), (ea, ee), (ee, ea), (ea, tuple(e)), (ea, list(e)), (ea, 3)):
                try:
                    same, diff = (x == y), (x != y)
                except Exception:
                    continue
                if bool(same) == bool(diff):
                    viol("q.eq", "__ne__", {"call": "ne", "a": list(x), "b": list(y) if isinstance(y, (tuple, list)) else repr(y)},
                         "%r == %r is %r but %r != %r is %r" % (x, y, same, x, y, diff), ("ne", kind))
                else:
                    REC.held("q.eq", ("ne", kind, bool(same)), "C15:eq:ne-is-negation", None)
            if kind == "I":
                _ = ea == Point(e[0], e[2])
        # one live object, queried again after in-place edits (a cached view must not survive a mutation)
        if k % 2 == 0:
            live = t.new()
            for _m in range(2):
                if kind == "I":
                    a0 = rng.choice(bounds) if rng.random() < 0.5 else rng.uniform(0, hi)
                    with core.paused():
                        call(live.insertEntry, (a0, a0 + rng.choice([0.05, 0.125, 0.3]), rng.choice(["a", "zz"])), "merge", "silence")
                else:
                    with core.paused():
                        call(live.insertEntry, (rng.uniform(0, hi), rng.choice(["a", "zz"])), "replace", "silence")
                if len(live.entries) and rng.random() < 0.4:
                    with core.paused():
                        call(live.deleteEntry, rng.choice(live.entries))
                REC.cls("C15:requery-after-mutation")
                call(live.find, rng.choice(["a", "zz", "z"]), rng.random() < 0.5, False)
                _ = live.timestamps
                if kind == "I" and len(live.entries):
                    call(live.getNonEntries)
                    call(live.getValuesInIntervals, rows)
                elif kind == "P":
                    call(live.getValuesAtPoints, rows, False)
                call(live.validate, "silence")
                _ = (live == t, t == live)
        # validate: clean, then corruptions through public attributes and the entry list
        call(t.validate, rng.choice(("silence", "warning", "error")))
        if rng.random() < 0.06:
            # a point tier built from its marks alone: one mark (or several on one instant) makes a tier whose span is that instant -
            # nothing lies outside it, nothing is out of order; the same inside a textgrid of such tiers
            from praatio.data_classes.point_tier import PointTier as _PT
            from praatio.data_classes.textgrid import Textgrid as _TG

            x_ = rng.choice([1.0, 0.0, rng.randrange(1, 500) / 100])
            lone = _PT("lone", [(x_, "a")] + ([(x_, "b")] if rng.random() < 0.3 else []))
            REC.cls("C15:validate:point-tier-whose-span-is-one-instant")
            call(lone.validate, rng.choice(("silence", "warning", "error")))
            tgl = _TG()
            tgl.addTier(lone, reportingMode="silence")
            call(tgl.validate, rng.choice(("silence", "warning", "error")))
        bad = t.new()
        c = rng.choice(["span", "order", "out-of-span", "degenerate", "overlap"])
        if c == "span":
            # the span is pulled inside the outermost entry: by a clear margin, by one rounding step, or by ~1e-14 relative
            if rng.random() < 0.5:
                last = bad.entries[-1][-2] if len(bad.entries) else None
                if last:
                    bad.maxTimestamp = rng.choice([last - 0.01, math.nextafter(last, -math.inf), last * (1 - 5e-15), last * (1 - 3e-12)])
            else:
                first = bad.entries[0][0] if len(bad.entries) else None
                if first:
                    bad.minTimestamp = rng.choice([first + 0.01, math.nextafter(first, math.inf), first * (1 + 5e-15), first * (1 + 3e-12)])
            REC.cls("C15:validate:corrupt-out-of-span")
        elif c == "order" and len(bad._entries) >= 2:
            bad._entries[0], bad._entries[-1] = bad._entries[-1], bad._entries[0]
            REC.cls("C15:validate:corrupt-order")
        elif c == "out-of-span":
            bad._entries.append(Interval(hi + 1.0, hi + 2.0, "o") if kind == "I" else Point(hi + 1.0, "o"))
            REC.cls("C15:validate:corrupt-out-of-span")
        elif c == "overlap" and kind == "I" and len(bad._entries) >= 2:
            # entries stay ordered by start, but one reaches into its successor
            i = rng.randrange(len(bad._entries) - 1)
            e, nxt = bad._entries[i], bad._entries[i + 1]
            bad._entries[i] = Interval(e[0], rng.choice([(nxt[0] + nxt[1]) / 2, nxt[1], math.nextafter(nxt[0], math.inf)]), e[2])
            REC.cls("C15:validate:corrupt-overlap")
        elif c == "degenerate" and kind == "I" and len(bad._entries):
            e = bad._entries[0]
            bad._entries[0] = Interval(e[1], e[0], e[2]) if rng.random() < 0.5 else Interval(e[0], e[0], e[2])
            REC.cls("C15:validate:corrupt-degenerate")
        call(bad.validate, rng.choice(("silence", "warning", "error")))
        if k % 3 == 0:
            tg, _all = rand_textgrid(rng)
            call(tg.validate, rng.choice(("silence", "warning", "error")))
            tg2 = tg.new()
            _ = (tg == tg2, tg2 == tg, tg == 5, tg == tg)
            if k % 9 == 0:
                # textgrids that have no tier (and possibly no span) yet
                e1, e2, e3 = Textgrid(), Textgrid(), Textgrid(0.0, 5.0)
                for x, y in ((e1, e1), (e1, e2), (e2, e1), (e1, e3), (e3, e1), (e3, Textgrid(0.0, 5.0)), (e1, tg), (tg, e1)):
                    call(lambda: x == y)
                REC.cls("C15:eq:textgrid-without-tiers")
            r = rng.random()
            if r < 0.35:
                tg2.maxTimestamp = tg2.maxTimestamp + rng.choice([1.0, 1e-5])
                REC.cls("C15:validate:corrupt-span")
            elif r < 0.6:
                tg2.minTimestamp = 0.25
                REC.cls("C15:validate:corrupt-span")
            elif r < 0.8:
                tt = tg2.tiers[0]
                tt._entries.append(Interval(6.0, 7.0, "o") if tt.tierType == "IntervalTier" else Point(7.0, "o"))
                REC.cls("C15:validate:corrupt-out-of-span")
            else:
                tg2.renameTier(tg2.tierNames[0], "renamed")
            call(tg2.validate, rng.choice(("silence", "warning", "error")))
            _ = (tg == tg2, tg2 == tg)


def replay(v, work):
    from praatio.utilities import utils
    from praatio.utilities.constants import Interval, Point

    c = v["case"]
    k = c["call"]
    with contextlib.redirect_stdout(io.StringIO()):
        if k == "ne":
            mk = lambda v: (Interval(*v) if len(v) == 3 else Point(*v)) if isinstance(v, list) else v
            x, y = mk(c["a"]), mk(c["b"]) if isinstance(c["b"], list) else 3
            for y2 in (y, tuple(y) if isinstance(y, (Interval, Point)) else y):
                same, diff = (x == y2), (x != y2)
                if bool(same) == bool(diff):
                    viol("q.eq", "__ne__", c, "%r == %r is %r but != is %r" % (x, y2, same, diff), ("ne",))
                else:
                    REC.held("q.eq", ("ne",), None, None)
        elif k == "find":
            call(snap.build_tier(c["tier"]).find, c["q"], c["sub"], c["re"])
        elif k == "timestamps":
            _ = snap.build_tier(c["tier"]).timestamps
        elif k == "getNonEntries":
            call(snap.build_tier(c["tier"]).getNonEntries)
        elif k == "getValuesInIntervals":
            call(snap.build_tier(c["tier"]).getValuesInIntervals, [tuple(r) for r in c["data"]])
        elif k == "getValuesAtPoints":
            call(snap.build_tier(c["tier"]).getValuesAtPoints, [tuple(r) for r in c["data"]], c["fuzzy"])
        elif k == "getValueAtTime":
            call(utils.getValueAtTime, c["t"], [tuple(r) for r in c["data"]], c["fuzzy"], 0)
        elif k == "getValuesInInterval":
            call(utils.getValuesInInterval, [tuple(r) for r in c["data"]], c["a"], c["b"])
        elif k == "getIntervalsInInterval":
            call(utils.getIntervalsInInterval, c["a"], c["b"], [Interval(*e) for e in c["ents"]], c["mode"])
        elif k == "intervalOverlapCheck":
            call(utils.intervalOverlapCheck, Interval(c["a"][0], c["a"][1], "x"), Interval(c["b"][0], c["b"][1], "y"), c["pct"], c["tt"], c["incl"])
        elif k == "invertIntervalList":
            call(utils.invertIntervalList, [tuple(x) for x in c["list"]], c["lo"], c["hi"])
        elif k in ("eq", "eq-sym"):
            def mk(val, kind):
                if kind == "tier" or (isinstance(val, dict) and "entries" in val):
                    with core.paused():
                        return snap.build_tier(val)
                if kind == "tg" or (isinstance(val, dict) and "tiers" in val):
                    with core.paused():
                        return snap.build_tg(val)
                if kind == "Interval":
                    return Interval(*val)
                if kind == "Point":
                    return Point(*val)
                return val
            kinds = c.get("kinds", ["tier", "tier"])
            a, b = mk(c["a"], kinds[0]), mk(c["b"], kinds[1])
            r1, r2 = a == b, b == a
            if bool(r1) != bool(r2):
                viol("q.eq", "__eq__", c, "equality is not symmetric", ("sym",))
        elif k == "validate":
            o = c["obj"]
            with core.paused():
                if "tiers" in o:
                    obj = snap.build_tg(dict(o, tiers=[t for t in o["tiers"] if tier_valid(t)]))
                else:
                    obj = snap.build_tier(dict(o, entries=[]))
                    obj._entries = [(Interval if o["t"] == "I" else Point)(*e) for e in o["entries"]]
                    obj.minTimestamp, obj.maxTimestamp = o["min"], o["max"]
            call(obj.validate, c["mode"])


CLASSIFIERS = {}

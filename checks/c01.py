"""C01 - TextGrid save/open round trip preserves every tier, time and label."""
import contextlib
import io
import os

from vmon import core, snap
from vmon.core import REC, SKIP
from workloads import tggen
from checks.common import call, desc
from checks import tgcommon as TC

PROP = "C01"
NSHARDS = {"quick": 8, "thorough": 16}
TIMEOUT = {"quick": 900, "thorough": 5400}
RULE = (
    "case = one save/open round trip observed by monitors on Textgrid.save and textgrid.openTextgrid (the open monitor looks up the "
    "bytes it reads in a registry of what monitored saves wrote in this process), or one fixed-point evaluation (re-saving the "
    "reopened textgrid must reproduce the first file byte for byte); generated from seeded textgrids of 1-4 interval/point tiers "
    "with 0-6 entries whose names/labels/numbers are drawn from hostile classes (quotes, doubled quotes, newlines, '=', digits, "
    "non-BMP text, format keywords; integers, near-integers, dyadic, 17-digit, exponent-form tiny values, values up to 1e15) x 4 formats "
    "x includeBlankSpaces x includeEmptyIntervals. distinct = (format, flags, sorted number classes, sorted label classes, tier-type "
    "sequence); non-trivial = at least one entry."
)
ASSUMPTIONS = [
    "timestamps must come back bit-identical, or as the integer n when |t-n| <= 1e-14*max(|t|,|n|)",
    "with includeBlankSpaces the default 1e-8 sliver absorption is C04's subject: C01 inputs keep every element of the filled partition 0 or >= 2e-8 long (D3); tiny values are exercised with blanks off, in point tiers and with the threshold disabled",
    "expected tier span after reopening = hull(original tier span, expected entries); plain json carries one span for the whole textgrid (D1)",
    "the text fixed point is claimed when empty intervals are kept on reopening or the textgrid has no empty-labelled entry (D2)",
]
EXHAUSTIVE = {"quick": False, "thorough": False}


def floors(tier):
    f = {"evals": {"roundtrip": 8000, "fixedpoint": 3000}, "classes": {}}
    for fmt in TC.FORMATS:
        f["classes"]["C01:format:%s" % fmt] = 500
    for c in ("quote", "newline", "exponent-number", "near-integer", "big", "keyword", "non-bmp", "empty-label", "point-tier", "narrow-tier", "threshold-none"):
        f["classes"]["C01:%s" % c] = 50
    return f


_registry = {}


def _save_pre(ctx):
    tg = ctx.self_
    if not snap.is_tg(tg):
        return SKIP
    return snap.tg_snap(tg)


def _save_post(ctx):
    if ctx.exc is not None:
        return
    fn = ctx.arg(0, "fn")
    try:
        with open(fn, "rb") as fd:
            content = fd.read()
    except OSError:
        return
    if len(_registry) > 20000:
        _registry.clear()
    _registry[content] = {
        "snap": ctx.pre, "format": ctx.arg(1, "format"), "blanks": ctx.arg(2, "includeBlankSpaces"),
        "minT": ctx.arg(3, "minTimestamp", None), "maxT": ctx.arg(4, "maxTimestamp", None), "thr": ctx.arg(5, "minimumIntervalLength", 1e-8),
    }


def _open_pre(ctx):
    fn = ctx.arg(0, "fnFullPath")
    try:
        with open(fn, "rb") as fd:
            content = fd.read()
    except OSError:
        return SKIP
    rec = _registry.get(content)
    if rec is None:
        REC.skip("roundtrip", "file-not-written-by-a-monitored-save")
        return SKIP
    return rec


def judgeable(rec):
    s = rec["snap"]
    if rec["minT"] is not None or rec["maxT"] is not None:
        return "override-in-use"
    if rec["format"] not in TC.FORMATS or not isinstance(rec["blanks"], bool):
        return "outside-domain-args"
    if not TC.wellformed_tg_snap(s):
        return "receiver-not-well-formed"
    if not TC.collapse_free(s):
        return "near-integer-rule-would-merge-distinct-timestamps"
    if rec["blanks"] and rec["thr"] is not None:
        if rec["thr"] != 1e-8 or not tggen.fill_safe(TC.data_of_snap(s), 2e-8):
            return "sliver-territory-(C04)"
    return None


def _open_post(ctx):
    rec = ctx.pre
    why_not = judgeable(rec)
    keep = ctx.arg(1, "includeEmptyIntervals")
    if why_not or not isinstance(keep, bool):
        REC.skip("roundtrip", why_not or "outside-domain-args")
        return
    s = rec["snap"]
    fmt, blanks = rec["format"], rec["blanks"]
    data = TC.data_of_snap(s)
    lcs = tggen.label_classes(data)
    kinds = tuple(t["t"] for t in s["tiers"])
    nclasses = set()
    for t in s["tiers"]:
        for e in t["entries"]:
            for v in e[:-1]:
                if float(v).is_integer():
                    nclasses.add("integer")
                elif "e" in repr(float(v)):
                    nclasses.add("exponent")
                elif abs(v - round(v)) <= 1e-14 * max(abs(v), 1.0):
                    nclasses.add("near-integer")
                elif abs(v) >= 1e6:
                    nclasses.add("big")
                elif float(v * 1024).is_integer():
                    nclasses.add("dyadic")
                else:
                    nclasses.add("decimal")
    classes = ["C01:format:%s" % fmt] + ["C01:%s" % c for c in lcs if c in ("quote", "newline", "keyword", "non-bmp")]
    if "exponent" in nclasses or tggen.has_exponent_number(data):
        classes.append("C01:exponent-number")
    if "near-integer" in nclasses:
        classes.append("C01:near-integer")
    if "big" in nclasses:
        classes.append("C01:big")
    if "empty" in lcs:
        classes.append("C01:empty-label")
    if "P" in kinds:
        classes.append("C01:point-tier")
    if any(t["min"] != s["min"] or t["max"] != s["max"] for t in s["tiers"]):
        classes.append("C01:narrow-tier")
    if rec["thr"] is None:
        classes.append("C01:threshold-none")
    sig = (fmt, blanks, keep, rec["thr"], tuple(sorted(nclasses)), tuple(sorted(lcs)), kinds)
    case = {"call": "roundtrip", "tg": s, "format": fmt, "blanks": blanks, "keep_empty": keep, "thr": rec["thr"], "int_typed": _int_typed[0]}
    mech = {"format": fmt, "text_format": fmt in TC.TEXT_FORMATS, "keyword": tggen.data_splits_reader(data, {"long_textgrid": "long", "short_textgrid": "short"}.get(fmt)),
            "exc": type(ctx.exc).__name__ if ctx.exc else None}
    REC.outcome("roundtrip", ctx.exc)
    nontrivial = any(t["entries"] for t in s["tiers"])
    if ctx.exc is not None:
        REC.violation(PROP, "roundtrip", "save;open", case, "opening the file written by save(%s, includeBlankSpaces=%s) raised %s: %s" % (
            fmt, blanks, type(ctx.exc).__name__, str(ctx.exc)[:200]), sig, mech)
        return
    if not snap.is_tg(ctx.result):
        REC.violation(PROP, "roundtrip", "save;open", case, "openTextgrid returned %r" % (ctx.result,), sig, mech)
        return
    got = snap.tg_snap(ctx.result)
    exp = TC.expected_roundtrip(s, fmt, blanks, keep)
    why = TC.compare_tg(exp, got)
    if why:
        REC.violation(PROP, "roundtrip", "save;open", case, "%s (format %s, includeBlankSpaces=%s, includeEmptyIntervals=%s)" % (why, fmt, blanks, keep), sig, mech)
    else:
        REC.held("roundtrip", sig if nontrivial else None, classes, case)


_installed = False


def install():
    global _installed
    if _installed:
        return
    _installed = True
    from praatio import textgrid as tgmod
    from praatio.data_classes.textgrid import Textgrid

    core.attach(Textgrid, "save", "roundtrip.save", _save_pre, _save_post)
    core.attach(tgmod, "openTextgrid", "roundtrip", _open_pre, _open_post, method=False)


def int_typed(tg):
    """the same textgrid with every whole-number timestamp handed over as a Python int, the way a caller writes them: the span given to
    Textgrid(0, 20), entries added with insertEntry((3, 4, "x")).  3 and 3.0 are the same time."""
    from praatio.data_classes.textgrid import Textgrid

    whole = lambda v: isinstance(v, float) and v.is_integer() and abs(v) < 2 ** 53
    as_int = lambda v: int(v) if whole(v) else v
    with core.paused():
        out = Textgrid(as_int(tg.minTimestamp), as_int(tg.maxTimestamp))
        for t in tg.tiers:
            t2 = t.new()
            ents = list(t2.entries)
            if ents and whole(t.maxTimestamp) and ents[-1][-2] == t.maxTimestamp and (len(ents) < 2 or ents[-2][-2] < t.maxTimestamp):
                # the tier grows to its (whole-number) end when its last entry is inserted: the tier's own span is then an int as well
                t2 = type(t)(t.name, [tuple(e) for e in ents[:-1]], t.minTimestamp, ents[-2][-2] if len(ents) > 1 else t.minTimestamp)
                t2.insertEntry(tuple(as_int(v) for v in ents[-1][:-1]) + (ents[-1][-1],))
            for e in list(t2.entries):
                if any(whole(v) and not isinstance(v, int) for v in e[:-1]):
                    t2.deleteEntry(e)
                    t2.insertEntry(tuple(as_int(v) for v in e[:-1]) + (e[-1],))
            out.addTier(t2, reportingMode="silence")
    return out


_int_typed = [False]  # set by the driver for the cases it records (replay re-applies int_typed)


def roundtrip(tg, data, work, fmt, blanks, keep, thr, k):
    """save -> open -> save again; the monitors judge the round trip, this driver judges the fixed point"""
    from praatio import textgrid as tgmod

    fn1 = os.path.join(str(work), "rt%d_a" % (k % 4))
    fn2 = os.path.join(str(work), "rt%d_b" % (k % 4))
    # the reporting mode of save only matters for a textgrid that is not validate()-clean ("error" then refuses, as documented);
    # for the reader it must not matter at all for a file save has written, nor may the duplicate-name policy
    clean = all(t["min"] == data["min"] and t["max"] == data["max"] for t in data["tiers"])
    smode = ("silence", "warning", "error" if clean else "silence", "silence")[(k // 3) % 4]
    omode = ("silence", "error", "warning", "silence", "error")[(k // 7) % 5]
    dmode = "rename" if (k // 5) % 3 == 0 else "error"
    # option strings that are equal to the documented values without being the same objects (they came from a config file, argv ...)
    fmt_arg, smode = ((fmt + "_")[:-1], (smode + "_")[:-1]) if k % 3 == 0 else (fmt, smode)
    cwd = os.getcwd()
    dest = fn1
    if k % 5 == 2:
        # the destination as a bare file name in the current directory / as a relative path
        os.chdir(str(work))
        dest = os.path.basename(fn1) if k % 2 else os.path.join(".", os.path.basename(fn1))
        REC.cls("C01:destination-relative-to-cwd")
    try:
        try:
            tg.save(dest, fmt_arg, blanks, None, None, thr, smode)
        finally:
            os.chdir(cwd)
    except Exception as e:
        rec = {"snap": snap.tg_snap(tg), "format": fmt, "blanks": blanks, "minT": None, "maxT": None, "thr": thr}
        if judgeable(rec) is None:
            REC.violation(PROP, "roundtrip", "save", {"call": "roundtrip", "tg": rec["snap"], "format": fmt, "blanks": blanks, "keep_empty": keep, "thr": thr},
                          "save(%s, includeBlankSpaces=%s) of a well-formed textgrid raised %s: %s" % (fmt, blanks, type(e).__name__, e), ("save-raised", fmt),
                          {"format": fmt, "text_format": fmt in TC.TEXT_FORMATS, "keyword": tggen.data_splits_reader(data, {"long_textgrid": "long", "short_textgrid": "short"}.get(fmt)), "exc": type(e).__name__, "step": "save"})
        return
    try:
        back = tgmod.openTextgrid(fn1, keep, omode, dmode)
    except Exception:
        return  # judged by the open monitor
    s = snap.tg_snap(tg)
    has_empty = any(e[-1] == "" for t in s["tiers"] for e in t["entries"])
    if not (keep or not has_empty):
        return
    if blanks and keep and any(t["t"] == "I" and (t["min"] != s["min"] or t["max"] != s["max"]) for t in s["tiers"]):
        # a tier narrower than its textgrid, filled with blanks out to the file's span (C02) and reopened with the blanks
        # kept, necessarily comes back wider than it was written (D1): the header line changes on the next save
        REC.skip("fixedpoint", "narrow-tier-with-kept-blanks")
        return
    rec = {"snap": s, "format": fmt, "blanks": blanks, "minT": None, "maxT": None, "thr": thr}
    if judgeable(rec) is not None:
        return
    case = {"call": "fixedpoint", "tg": s, "format": fmt, "blanks": blanks, "keep_empty": keep, "thr": thr, "int_typed": _int_typed[0]}
    mech = {"format": fmt, "text_format": fmt in TC.TEXT_FORMATS, "keyword": tggen.data_splits_reader(data, {"long_textgrid": "long", "short_textgrid": "short"}.get(fmt)), "step": "fixedpoint"}
    try:
        with core.paused():
            back.save(fn2, fmt, blanks, None, None, thr, "silence")
    except Exception as e:
        REC.violation(PROP, "fixedpoint", "save;open;save", case, "re-saving the reopened textgrid raised %s: %s" % (type(e).__name__, e), ("fp", fmt), dict(mech, exc=type(e).__name__))
        return
    a, b = open(fn1, "rb").read(), open(fn2, "rb").read()
    if a != b:
        ta, tb = a.decode("utf-8", "replace"), b.decode("utf-8", "replace")
        i = next((i for i, (x, y) in enumerate(zip(ta, tb)) if x != y), min(len(ta), len(tb)))
        REC.violation(PROP, "fixedpoint", "save;open;save", case, "the written form is not a fixed point (format %s): first difference at char %d: %r vs %r" % (
            fmt, i, ta[max(0, i - 30):i + 30], tb[max(0, i - 30):i + 30]), ("fp", fmt), mech)
    else:
        REC.held("fixedpoint", ("fp", fmt, blanks, keep), None, None)


def workload(tier, rng, shard, nshards, work):
    with contextlib.redirect_stdout(io.StringIO()):
        n = (2400 if tier == "quick" else 60000) // nshards
        k = 0
        for i in range(n):
            tiny = i % 4 == 3
            # (labels handed to the constructors with surrounding white space of every kind: a tier holds them trimmed, C05)
            data, _cl = tggen.gen_textgrid(rng, ntiers=(1, 5), nentries=(0, 7), keywords=(i % 5 == 4), min_gap=0 if tiny else 2e-8,
                                           scale_class="tiny" if tiny else None, ws_labels=(i % 3 == 1))
            tg = TC.build_tg(data)
            _int_typed[0] = False
            if i % 6 == 5:
                try:
                    tg = int_typed(tg)
                    _int_typed[0] = True
                    REC.cls("C01:whole-number-timestamps-given-as-int")
                except Exception:
                    pass
            for fmt in TC.FORMATS:
                for blanks in (True, False):
                    for keep in (True, False):
                        k += 1
                        if tiny:
                            thr = None if blanks else 1e-8
                        else:
                            thr = 1e-8 if (k % 5) else None
                        roundtrip(tg, data, work, fmt, blanks, keep, thr, k)


def replay(v, work):
    c = v["case"]
    with contextlib.redirect_stdout(io.StringIO()):
        with core.paused():
            tg = snap.build_tg(c["tg"])
        if c.get("int_typed"):
            tg = int_typed(tg)
            _int_typed[0] = True
        roundtrip(tg, TC.data_of_snap(c["tg"]), work, c["format"], c["blanks"], c["keep_empty"], c.get("thr", 1e-8), 0)


CLASSIFIERS = {
    "text-reader-splits-on-keywords-inside-labels": lambda v: v["mech"].get("text_format") and v["mech"].get("keyword"),
}

"""C02 - written TextGrid files are well-formed and all four formats say the same."""
import contextlib
import io
import os

from vmon import core, snap
from vmon.core import REC, SKIP
from models import praat_text as PT
from workloads import tggen
from checks.common import call, desc, num
from checks import tgcommon as TC

PROP = "C02"
NSHARDS = {"quick": 8, "thorough": 16}
TIMEOUT = {"quick": 900, "thorough": 5400}
RULE = (
    "case = one document produced by the real writer (textgrid_io.getTextgridAsStr, or the bytes Textgrid.save put on disk) decoded by "
    "the independent spec reader of models/praat_text.py and compared with the in-memory textgrid, or one four-format agreement "
    "evaluation; generated from the C01 textgrid generator, here with the formats' own keywords in labels and names, x 4 formats x "
    "includeBlankSpaces x optional minTimestamp/maxTimestamp overrides (none, below/above the data span). distinct = (format, flags, "
    "override class, sorted number classes, sorted label classes, tier-type sequence); non-trivial = at least one entry."
)
ASSUMPTIONS = [
    "the spec reader implements Praat's documented type-directed reading rules (strings, numbers, flags; every other word is a comment); it is self-tested against every Praat-written fixture in the repository",
    "timestamps: bit-identical or the near-integer rule; with blank filling on, decoded entries must equal the ideal blank-filled partition when no element is shorter than twice the sliver threshold (otherwise only structure is judged here and content by C04)",
    "cross-format agreement compares tier spans among the three formats whose schema carries them (D4)",
]
EXHAUSTIVE = {"quick": False, "thorough": False}


def floors(tier):
    return _floors(tier, {"C02:raising-save-leaves-destination": 10})


def _floors(tier, extra):
    f = {"evals": {"decode": 8000, "decode.file": 500, "agreement": 1500}, "classes": {}}
    for fmt in TC.FORMATS:
        f["classes"]["C02:spec-reader:%s" % fmt] = 500
    for c in ("keyword", "quote", "newline", "override-above", "override-below", "partition-checked", "point-tier", "exponent-number", "sliver-structure"):
        f["classes"]["C02:%s" % c] = 50
    f["classes"].update(extra)
    return f


def plain_of_dict(d):
    """deep, by-value copy of the dictionary handed to getTextgridAsStr -> tggen-style data"""
    tiers = []
    for t in d["tiers"]:
        kind = "I" if t["class"] == "IntervalTier" else "P"
        tiers.append({"t": kind, "name": t["name"], "min": t["xmin"], "max": t["xmax"], "entries": [tuple(e) for e in t["entries"]]})
    return {"min": d["xmin"], "max": d["xmax"], "tiers": tiers}


def snap_like(data):
    return {"min": data["min"], "max": data["max"], "tiers": [dict(t, entries=[list(e) for e in t["entries"]]) for t in data["tiers"]],
            "keys": [t["name"] for t in data["tiers"]]}


def judge_document(data, fmt, blanks, minT, maxT, thr, text):
    """-> (ok|None, msg, classes)"""
    classes = ["C02:spec-reader:%s" % fmt]
    lcs = tggen.label_classes(data)
    for c in ("keyword", "quote", "newline"):
        if c in lcs:
            classes.append("C02:%s" % c)
    if any(t["t"] == "P" for t in data["tiers"]):
        classes.append("C02:point-tier")
    if tggen.has_exponent_number(data):
        classes.append("C02:exponent-number")
    try:
        doc = PT.read_any(text, fmt)
    except PT.SpecError as e:
        return False, "the %s document is not well-formed: %s" % (fmt, e), classes
    lo = data["min"] if minT is None else minT
    hi = data["max"] if maxT is None else maxT
    if maxT is not None:
        classes.append("C02:override-above" if maxT > data["max"] else "C02:override-below")
    if minT is not None:
        classes.append("C02:override-below" if minT < data["min"] else "C02:override-above")
    if not TC.match_time(lo, doc["xmin"]) or not TC.match_time(hi, doc["xmax"]):
        return False, "file span [%r, %r], expected [%r, %r]" % (doc["xmin"], doc["xmax"], lo, hi), classes
    if len(doc["tiers"]) != len(data["tiers"]):
        return False, "%d tiers decoded, %d in memory" % (len(doc["tiers"]), len(data["tiers"])), classes
    safe = (not blanks) or thr is None or (thr == 1e-8 and tggen.fill_safe(dict(data, min=lo, max=hi), 2e-8))
    for t, dt in zip(data["tiers"], doc["tiers"]):
        kind = "IntervalTier" if t["t"] == "I" else "TextTier"
        if dt["class"] != kind or dt["name"] != t["name"]:
            return False, "tier class/name %s/%r, in memory %s/%r" % (dt["class"], dt["name"], kind, t["name"]), classes
        if fmt != "json" and (not TC.match_time(t["min"], dt["xmin"]) or not TC.match_time(t["max"], dt["xmax"])):
            return False, "tier %r span [%r, %r], in memory [%r, %r]" % (t["name"], dt["xmin"], dt["xmax"], t["min"], t["max"]), classes
        dec = dt["entries"]
        if blanks and (minT is not None or maxT is not None):
            # a span that was asked for is the span of everything in the file: no entry of any tier may lie outside it
            out = [e for e in dec if e[0] < doc["xmin"] and not TC.match_time(doc["xmin"], e[0]) or e[-2] > doc["xmax"] and not TC.match_time(doc["xmax"], e[-2])]
            if out:
                return False, "tier %r: entry %r lies outside the file's span [%r, %r]" % (t["name"], out[0], doc["xmin"], doc["xmax"]), classes
        if t["t"] == "I" and blanks:
            classes.append("C02:partition-checked")
            if not dec:
                return False, "tier %r: blank filling on but no interval written" % t["name"], classes
            for i, e in enumerate(dec):
                if not e[0] < e[1]:
                    return False, "tier %r: written interval %r does not have start < end" % (t["name"], e), classes
                if i and dec[i - 1][1] != e[0]:
                    return False, "tier %r: interval %d starts at %r but the previous one ends at %r (gap or overlap)" % (t["name"], i, e[0], dec[i - 1][1]), classes
            if dec[0][0] != doc["xmin"] or dec[-1][1] != doc["xmax"]:
                return False, "tier %r: partition runs [%r, %r] but the file span is [%r, %r]" % (t["name"], dec[0][0], dec[-1][1], doc["xmin"], doc["xmax"]), classes
            exp = TC.fill([tuple(e) for e in t["entries"]], lo, hi) if safe else None
        else:
            exp = [tuple(e) for e in t["entries"]]
        if exp is not None:
            if len(exp) != len(dec):
                return False, "tier %r: %d entries decoded, expected %d: %r vs %r" % (t["name"], len(dec), len(exp), dec[:5], exp[:5]), classes
            for i, (a, b) in enumerate(zip(exp, dec)):
                if a[-1] != b[-1]:
                    return False, "tier %r entry %d: label %r decoded, %r in memory" % (t["name"], i, b[-1], a[-1]), classes
                for u, v in zip(a[:-1], b[:-1]):
                    if not TC.match_time(u, v):
                        return False, "tier %r entry %d: time %r decoded, %r in memory" % (t["name"], i, v, u), classes
    return True, "", classes


def domain_ok(data, fmt, blanks, minT, maxT, thr):
    if fmt not in TC.FORMATS or not isinstance(blanks, bool):
        return "outside-domain-args"
    if any(x is not None and not num(x) for x in (minT, maxT, thr)):
        return "outside-domain-args"
    s = snap_like(data)
    if not TC.wellformed_tg_snap(s):
        return "textgrid-not-well-formed"
    lo = data["min"] if minT is None else minT
    hi = data["max"] if maxT is None else maxT
    if not TC.collapse_free(dict(s, min=min(lo, data["min"]), max=max(hi, data["max"]))) or not TC.collapse_free(dict(s, min=lo, max=hi)) or not lo < hi:
        return "near-integer-rule-would-merge-distinct-timestamps"
    if blanks and thr is not None and hi - lo < thr:
        return "requested-span-shorter-than-minimum-interval-length"  # no partition without a sub-threshold element exists
    return None


def _str_pre(ctx):
    d = ctx.arg(0, "tg")
    try:
        data = plain_of_dict(d)
    except Exception:
        return SKIP
    args = (ctx.arg(1, "format"), ctx.arg(2, "includeBlankSpaces"), ctx.arg(3, "minTimestamp", None), ctx.arg(4, "maxTimestamp", None),
            ctx.arg(5, "minimumIntervalLength", 1e-8))
    why = domain_ok(data, *args)
    if why:
        REC.skip("decode", why)
        return SKIP
    return (data,) + args


def _report(mon, data, fmt, blanks, minT, maxT, thr, text, extra_case=None):
    ok, msg, classes = judge_document(data, fmt, blanks, minT, maxT, thr, text)
    lcs = tggen.label_classes(data)
    sig = (fmt, blanks, minT is not None, maxT is not None, thr, tuple(sorted(lcs)), tuple(t["t"] for t in data["tiers"]),
           tuple(len(t["entries"]) for t in data["tiers"]))
    case = {"call": "write", "tg": snap_like(data), "format": fmt, "blanks": blanks, "minT": minT, "maxT": maxT, "thr": thr}
    if ok:
        REC.held(mon, sig if any(t["entries"] for t in data["tiers"]) else None, classes, case)
    else:
        REC.violation(PROP, mon, "getTextgridAsStr", case, msg + " (format %s, includeBlankSpaces=%s)" % (fmt, blanks), sig,
                      {"format": fmt, "blanks": blanks, "keyword": "keyword" in lcs})


def _str_post(ctx):
    data, fmt, blanks, minT, maxT, thr = ctx.pre
    REC.outcome("decode", ctx.exc)
    if ctx.exc is not None:
        # a raise is legitimate only for an entry outside the requested span with blank filling on (C04); anything else is judged
        lo = data["min"] if minT is None else minT
        hi = data["max"] if maxT is None else maxT
        outside = any(t["entries"] and (t["entries"][0][0] < lo or t["entries"][-1][-2] > hi) for t in data["tiers"])  # intervals and points alike
        if outside and blanks and core.is_praatio_error(ctx.exc):
            # the refusal C04 demands: no document, hence none that is not well-formed
            REC.held("decode", ("refused", fmt), "C02:entry-outside-requested-span-refused", None)
            return
        if outside and (blanks or core.is_praatio_error(ctx.exc)):
            # (with blank filling off the pinned tree writes such entries verbatim; refusing them there too is what C04's sentence says)
            REC.skip("decode", "entry-outside-requested-span")
            return
        REC.violation(PROP, "decode", "getTextgridAsStr", {"call": "write", "tg": snap_like(data), "format": fmt, "blanks": blanks, "minT": minT, "maxT": maxT, "thr": thr},
                      "writing a well-formed textgrid raised %s: %s" % (type(ctx.exc).__name__, ctx.exc), ("raise", fmt), {"format": fmt, "exc": type(ctx.exc).__name__})
        return
    if not isinstance(ctx.result, str):
        REC.violation(PROP, "decode", "getTextgridAsStr", {"call": "write", "tg": snap_like(data), "format": fmt, "blanks": blanks, "minT": minT, "maxT": maxT, "thr": thr},
                      "returned %r" % (ctx.result,), ("type", fmt), {"format": fmt})
        return
    _report("decode", data, fmt, blanks, minT, maxT, thr, ctx.result)


def _save_pre(ctx):
    tg = ctx.self_
    if not snap.is_tg(tg):
        return SKIP
    s = snap.tg_snap(tg)
    data = {"min": s["min"], "max": s["max"], "tiers": [dict(t, entries=[tuple(e) for e in t["entries"]]) for t in s["tiers"]]}
    args = (ctx.arg(1, "format"), ctx.arg(2, "includeBlankSpaces"), ctx.arg(3, "minTimestamp", None), ctx.arg(4, "maxTimestamp", None),
            ctx.arg(5, "minimumIntervalLength", 1e-8))
    if s["keys"] != [t["name"] for t in s["tiers"]] or domain_ok(data, *args):
        REC.skip("decode.file", "outside-domain")
        return SKIP
    fn = ctx.arg(0, "fn")
    try:
        before = open(fn, "rb").read()
    except OSError:
        before = None
    return (data,) + args + (fn, before)


def _save_post(ctx):
    data, fmt, blanks, minT, maxT, thr, fn, before = ctx.pre
    if ctx.exc is not None:
        # "every file produced by save is a well-formed document": a save that raises may leave the destination as it was, or
        # absent; whatever else it leaves behind is a file produced by save and has to decode
        try:
            now = open(fn, "rb").read()
        except OSError:
            now = None
        case = {"call": "failing-save", "tg": snap_like(data), "format": fmt, "blanks": blanks, "minT": minT, "maxT": maxT, "thr": thr,
                "had_file": before is not None}
        sig = ("failing-save", fmt, before is not None)
        if now is None or now == before:
            REC.held("decode.file", sig, "C02:raising-save-leaves-destination", case)
            return
        try:
            PT.read_any(now.decode("utf-8"), fmt)
            REC.held("decode.file", sig, "C02:raising-save-leaves-destination", case)
        except Exception as e:
            REC.violation(PROP, "decode.file", "save", case, "save raised %s and left %d bytes at the destination (%s before) that do not decode as a %s document: %s" % (
                type(ctx.exc).__name__, len(now), "%d bytes" % len(before) if before is not None else "no file", fmt, str(e)[:120]),
                sig, {"format": fmt, "failing_save": True})
        return
    try:
        raw = open(fn, "rb").read()
        text = raw.decode("utf-8")
    except (OSError, UnicodeDecodeError) as e:
        REC.violation(PROP, "decode.file", "save", {"call": "write", "tg": snap_like(data), "format": fmt, "blanks": blanks, "minT": minT, "maxT": maxT, "thr": thr},
                      "the saved file cannot be read back as UTF-8: %s" % e, ("utf8", fmt), {"format": fmt})
        return
    _report("decode.file", data, fmt, blanks, minT, maxT, thr, text)


_installed = False


def install():
    global _installed
    if _installed:
        return
    _installed = True
    from praatio.data_classes.textgrid import Textgrid
    from praatio.utilities import textgrid_io

    core.attach(textgrid_io, "getTextgridAsStr", "decode", _str_pre, _str_post, method=False)
    core.attach(Textgrid, "save", "decode.file", _save_pre, _save_post)


def agreement(tg, data, blanks, thr, held=None):
    """the four formats written from one textgrid decode to identical content"""
    from praatio.data_classes.textgrid import _tgToDictionary
    from praatio.utilities import textgrid_io

    if domain_ok(data, "json", blanks, None, None, thr):
        return
    docs = {}
    held = held or snap.tg_snap(tg)  # (the textgrid as it was built, when the caller has written documents from it before)
    for fmt in TC.FORMATS:
        try:
            with core.paused():
                text = textgrid_io.getTextgridAsStr(_tgToDictionary(tg), fmt, blanks, None, None, thr)
            docs[fmt] = PT.read_any(text, fmt)
        except Exception as e:
            REC.skip("agreement", "a-format-failed-(judged-by-decode)")
            return
    case = {"call": "agreement", "tg": snap_like(data), "blanks": blanks, "thr": thr}
    now = snap.tg_snap(tg)
    if now != held:
        # "the four formats written from ONE Textgrid": writing a document must not change the textgrid it is written from, or the
        # next document says something else than the first
        REC.violation(PROP, "agreement", "four-formats", case, "writing the four documents changed the textgrid they were written from: %r -> %r" % (
            [t["entries"][:4] for t in held["tiers"]], [t["entries"][:4] for t in now["tiers"]]), ("agree-frame", blanks), {"format": "all", "blanks": blanks, "source_changed": True})
        return
    ref = docs["textgrid_json"]
    why = None
    for fmt in TC.FORMATS:
        d = docs[fmt]
        if not TC.match_time(ref["xmin"], d["xmin"]) or not TC.match_time(ref["xmax"], d["xmax"]):
            why = "%s file span [%r, %r] vs textgrid_json [%r, %r]" % (fmt, d["xmin"], d["xmax"], ref["xmin"], ref["xmax"])
        elif [(t["class"], t["name"]) for t in d["tiers"]] != [(t["class"], t["name"]) for t in ref["tiers"]]:
            why = "%s tier classes/names differ from textgrid_json" % fmt
        else:
            for a, b in zip(ref["tiers"], d["tiers"]):
                if len(a["entries"]) != len(b["entries"]) or any(x[-1] != y[-1] or not all(TC.match_time(u, v) for u, v in zip(x[:-1], y[:-1])) for x, y in zip(a["entries"], b["entries"])):
                    why = "%s tier %r entries %r vs textgrid_json %r" % (fmt, a["name"], b["entries"][:6], a["entries"][:6])
                    break
                if fmt != "json" and (not TC.match_time(a["xmin"], b["xmin"]) or not TC.match_time(a["xmax"], b["xmax"])):
                    why = "%s tier %r span differs from textgrid_json" % (fmt, a["name"])
                    break
        if why:
            break
    if why:
        REC.violation(PROP, "agreement", "four-formats", case, why, ("agree", blanks), {"format": "all", "blanks": blanks})
    else:
        REC.held("agreement", ("agree", blanks, thr, tuple(t["t"] for t in data["tiers"])), None, None)


def workload(tier, rng, shard, nshards, work):
    from praatio.data_classes.textgrid import _tgToDictionary
    from praatio.utilities import textgrid_io

    with contextlib.redirect_stdout(io.StringIO()):
        # a file of realistic size whose text is not ASCII (a few thousand intervals labelled in Cyrillic, Greek, Chinese): more than 64 KiB
        # of text, and more bytes than characters
        for _big in range(1 if tier == "quick" else 3):
            nint = rng.randrange(3000, 4200)
            word = rng.choice(["\u043f\u0440\u0438\u0432\u0435\u0442", "\u03bb\u03cc\u03b3\u03bf\u03c2", "\u4f60\u597d\u4e16\u754c", "caf\u00e9"])
            ents_ = [(round(i * 0.25, 2), round(i * 0.25 + 0.2, 2), "%s%d" % (word, i % 7)) for i in range(nint)]
            big = {"min": 0.0, "max": nint * 0.25, "tiers": [{"t": "I", "name": word, "min": 0.0, "max": nint * 0.25, "entries": ents_},
                                                             {"t": "P", "name": "p", "min": 0.0, "max": nint * 0.25, "entries": [(1.0, word)]}]}
            tgb = TC.build_tg(big)
            REC.cls("C02:non-ascii-file-of-more-than-64KiB")
            for fmt in rng.sample(TC.FORMATS, 2 if tier == "quick" else 4):
                call(tgb.save, os.path.join(str(work), "big_%s" % fmt), fmt, rng.random() < 0.5)
        n = (2400 if tier == "quick" else 50000) // nshards
        k = 0
        for i in range(n):
            tiny = i % 4 == 3
            data, _cl = tggen.gen_textgrid(rng, keywords=(i % 2 == 0), min_gap=0 if tiny else 2e-8, scale_class="tiny" if tiny else None)
            tg = TC.build_tg(data)
            built = snap.tg_snap(tg)
            first = min([t["entries"][0][0] for t in data["tiers"] if t["entries"]] + [data["max"]])
            last = max([t["entries"][-1][-2] for t in data["tiers"] if t["entries"]] + [data["min"]])
            for fmt in TC.FORMATS:
                for blanks in (True, False):
                    k += 1
                    thr = None if (tiny and blanks) else 1e-8
                    r = k % 6
                    minT = maxT = None
                    if r == 1:
                        maxT = data["max"] + rng.choice([0.5, 1.0, 7 / 3])
                    elif r == 2 and first > 0:
                        minT = first / 2 if first / 2 >= 2e-8 else None
                    elif r == 3 and last < data["max"]:
                        maxT = (last + data["max"]) / 2
                    elif r == 4 and data["min"] > 0:
                        minT = 0.0
                    elif r == 5 and blanks:
                        # the requested end lies behind every interval and before the last point: the writer refuses (C04) - or, if it
                        # writes, the document must not hold a point beyond its own xmax
                        ilast_ = max([t["entries"][-1][1] for t in data["tiers"] if t["t"] == "I" and t["entries"]] + [data["min"]])
                        plast_ = max([t["entries"][-1][0] for t in data["tiers"] if t["t"] == "P" and t["entries"]] + [data["min"]])
                        if plast_ > ilast_ and (ilast_ + plast_) / 2 > data["min"]:
                            maxT = (ilast_ + plast_) / 2
                            REC.cls("C02:override-between-last-interval-and-last-point")
                    if blanks and minT is None and maxT is None and rng.random() < 0.06:
                        # a requested end a few ulps inside the last interval (a duration computed another way): refused (C04) - or, if
                        # written, still a partition of exactly the span the file declares
                        import math

                        il = max([t["entries"][-1][1] for t in data["tiers"] if t["t"] == "I" and t["entries"]] + [0.0])
                        if il > 0 and il >= last:
                            maxT = math.nextafter(il, 0) if rng.random() < 0.5 else il * (1 - 4e-15)
                            REC.cls("C02:override-ulps-inside-the-last-interval")
                    if k % 7 == 0:
                        fn = os.path.join(str(work), "w%d" % (k % 3))
                        call(tg.save, fn, fmt, blanks, minT, maxT, thr, ("silence", "warning", "silence", "error")[(k // 7) % 4])
                        ilast = max([t["entries"][-1][1] for t in data["tiers"] if t["t"] == "I" and t["entries"]] + [data["min"]])
                        if ilast > data["min"] and k % 3 != 0:  # a save that cannot succeed: the requested end cuts an entry
                            cut = (ilast + data["min"]) / 2
                            if cut > data["min"]:
                                call(tg.save, fn if k % 2 == 0 else fn + "_new", fmt, True, None, cut, thr, ("silence", "warning")[(k // 7) % 2])
                    else:
                        call(textgrid_io.getTextgridAsStr, _tgToDictionary(tg), fmt, blanks, minT, maxT, thr)
            agreement(tg, data, True, None if tiny else 1e-8, built)
            agreement(tg, data, False, 1e-8, built)
            if i % 4 == 0:
                # sub-threshold slivers (C04's subject): here only the structure of the written partition is judged
                segs = [(rng.choice([0.2, 0.05, 1.0]), rng.choice(["a", "b", None])) for _ in range(rng.randrange(1, 4))]
                chain = [(rng.choice([3e-9, 4e-9, 6e-9, 9e-9]), rng.choice(["s", None])) for _ in range(rng.randrange(1, 4))]
                tail = [(rng.choice([0.3, 0.07]), rng.choice(["t", None]))] if rng.random() < 0.5 else []
                cur = rng.choice([0.0, 0.37])
                ents = []
                for length, lab in segs + chain + tail:
                    nxt = cur + length
                    if lab is not None:
                        ents.append((cur, nxt, lab))
                    cur = nxt
                top = cur + rng.choice([0.0, 2e-9, 7e-9])
                if ents:
                    REC.cls("C02:sliver-structure")
                    d2 = {"min": 0.0, "max": top, "tiers": [{"t": "I", "name": "sl", "min": 0.0, "max": top, "entries": ents}]}
                    try:
                        tg2 = TC.build_tg(d2)
                    except Exception:
                        tg2 = None
                    if tg2 is not None:
                        for fmt in TC.FORMATS:
                            call(textgrid_io.getTextgridAsStr, _tgToDictionary(tg2), fmt, True, None, None, 1e-8)


def replay(v, work):
    from praatio.data_classes.textgrid import _tgToDictionary
    from praatio.utilities import textgrid_io

    c = v["case"]
    with contextlib.redirect_stdout(io.StringIO()):
        with core.paused():
            tg = snap.build_tg(c["tg"])
        if c["call"] == "failing-save":
            fn = os.path.join(str(work), "replay_dest")
            if c["had_file"]:
                with open(fn, "wb") as fd:
                    fd.write(b"what the destination held before\n")
            call(tg.save, fn, c["format"], c["blanks"], c["minT"], c["maxT"], c["thr"], "silence")
        elif c["call"] == "agreement":
            agreement(tg, {"min": c["tg"]["min"], "max": c["tg"]["max"], "tiers": [dict(t, entries=[tuple(e) for e in t["entries"]]) for t in c["tg"]["tiers"]]}, c["blanks"], c["thr"])
        else:
            call(textgrid_io.getTextgridAsStr, _tgToDictionary(tg), c["format"], c["blanks"], c["minT"], c["maxT"], c["thr"])


CLASSIFIERS = {}

"""C17 - interval-driven audio extraction keeps and drops exactly the marked samples."""
import contextlib
import io
import math
import os
import shutil
import wave

from vmon import core, snap
from vmon.core import REC, SKIP
from models import wavmodel as W
from models import praat_text as PT
from models import tiers as M
from workloads import gen
from checks.common import call, num, make_tier

PROP = "C17"
NSHARDS = {"quick": 8, "thorough": 16}
TIMEOUT = {"quick": 900, "thorough": 5400}
RULE = (
    "case = one monitored audio.readFramesAtTimes / extractSubwav / praatio_scripts.splitAudioOnTier / AudioGenerator.generateSilence / "
    "generateSineWave call; recordings of width {1,2,4}, several rates, <=400 samples x interval lists (empty, touching, at both "
    "edges, on and off sample positions) x {keep, delete} x {with, without a recording replacement function}; for splitAudioOnTier "
    "multi-tier textgrids whose secondary tiers do / do not have entries under each interval x nameStyle x noPartialIntervals x "
    "outputTGFlag {False, True, tier name}; written wav files are read back with the wave module and written TextGrids with the "
    "independent spec reader. distinct = (operation, width, rate, list class, on/off-grid, flags); non-trivial = at least one interval."
)
ASSUMPTIONS = [
    "the samples of a stretch [a, b] are those from the index nearest a*rate to the index nearest b*rate (D15); times within 1e-6 of a half sample are not judged",
    "an empty keep list is not judged (keep nothing vs. no list given is not fixed by the statement)",
    "cropped TextGrids are compared with the exact crop model of C06 (strict / truncated, rebased)",
]
EXHAUSTIVE = {"quick": False, "thorough": False}


def floors(tier):
    return {
        "evals": {"rfats": 2000, "extractSubwav": 300, "split": 150, "generator": 1000, "keepdelete": 1000},
        "classes": {"C17:keep": 300, "C17:delete": 300, "C17:with-replacement": 300, "C17:touching": 100, "C17:at-edges": 100, "C17:off-grid": 300,
                    "C17:both-lists-rejected": 50, "C17:beyond-duration-rejected": 50, "C17:intervals-as-one-shot-iterable": 30, "C17:extract-in-place": 20, "C17:split:empty-secondary-tier": 30,
                    "C17:split:tg-true": 30, "C17:split:tg-tiername": 30, "C17:split:noPartial": 30, "C17:empty-delete-list": 30,
                    "C17:reused-handle": 200, "C17:unsorted-list": 50, "C17:split:nameStyle:None": 10, "C17:split:nameStyle:append": 10, "C17:split:nameStyle:append_no_i": 10, "C17:split:nameStyle:label": 10},
    }


def read_wav(fn):
    wf = wave.open(fn, "r")
    p = wf.getparams()
    if p.nframes > 20000:
        wf.close()
        raise ValueError("recording too large for the list model")
    raw = wf.readframes(p.nframes)
    wf.close()
    return p, raw


def file_state(af):
    p = af.getparams()
    if p.nframes > 20000:
        raise ValueError("recording too large for the list model")
    pos = af.tell()
    af.setpos(0)
    raw = af.readframes(p.nframes)
    af.setpos(pos)
    return p, raw


# ---------------- readFramesAtTimes ---------------------------------------------
_rep_kind = ["silence"]  # set by the driver: how the replacement function of the next call was made (for replay)


def _rf_pre(ctx):
    af = ctx.arg(0, "audiofile")
    keep, dele, rep = ctx.arg(1, "keepIntervals", None), ctx.arg(2, "deleteIntervals", None), ctx.arg(3, "replaceFunc", None)
    try:
        p, raw = file_state(af)
    except Exception:
        return SKIP
    if p.nchannels != 1 or p.sampwidth not in (1, 2, 4):
        return SKIP
    try:
        keep, dele = _listed(keep), _listed(dele)
    except LookupError:
        REC.skip("rfats", "one-shot-iterable-of-unknown-content")
        return SKIP
    return (p, raw, [tuple(x)[:2] for x in keep] if keep is not None else None, [tuple(x)[:2] for x in dele] if dele is not None else None, rep)


_iter_of = {}  # id(one-shot iterable handed to the library) -> the list it was made from (registered by the driver)


def _listed(x):
    """the intervals an argument stands for, WITHOUT consuming it: lists and tuples as they are, a one-shot iterable through the
    driver's registry"""
    if x is None or isinstance(x, (list, tuple)):
        return x
    if id(x) in _iter_of:
        return _iter_of[id(x)]
    raise LookupError


def _rf_post(ctx):
    p, raw, keep, dele, rep = ctx.pre
    mon = "rfats"
    width, rate, n = p.sampwidth, p.framerate, p.nframes
    model = W.decode(raw, width)
    dur = n / rate
    case = {"call": "readFramesAtTimes", "width": width, "rate": rate, "samples": model, "keep": keep, "delete": dele, "replace": rep is not None,
            "replace_kind": list(_rep_kind) if rep is not None else None}
    mech = {"op": "readFramesAtTimes", "width": width, "exc": type(ctx.exc).__name__ if ctx.exc else None}
    REC.outcome(mon, ctx.exc)
    if keep and dele:
        sig = ("both",)
        if ctx.exc is None or type(ctx.exc).__name__ != "ArgumentError":
            REC.violation(PROP, mon, "readFramesAtTimes", case, "both keepIntervals and deleteIntervals given: expected ArgumentError, got %r" % (ctx.exc or "a result"), sig, mech)
        else:
            REC.held(mon, sig, "C17:both-lists-rejected", case)
        return
    lst = keep if keep else dele
    if keep is not None and not keep and not dele:
        REC.skip(mon, "empty-keep-list")
        return
    lst = lst or []
    if not all(num(a) and num(b) and a < b for a, b in lst):
        REC.skip(mon, "degenerate-interval")
        return
    srt = sorted(lst)
    if any(x[1] > y[0] for x, y in zip(srt, srt[1:])) or (srt and srt[0][0] < 0):
        REC.skip(mon, "overlapping-or-negative")
        return
    if srt and srt[-1][1] > dur:
        sig = ("beyond",)
        if ctx.exc is None or type(ctx.exc).__name__ != "ArgumentError":
            REC.violation(PROP, mon, "readFramesAtTimes", case, "an interval ends at %r beyond the recording (%r s): expected ArgumentError, got %r" % (srt[-1][1], dur, ctx.exc or "a result"), sig, mech)
        else:
            REC.held(mon, sig, "C17:beyond-duration-rejected", case)
        return
    # expected assembly
    marked = []
    cur = 0.0
    for a, b in srt:
        if a > cur:
            marked.append((cur, a, not bool(keep)))
        marked.append((a, b, bool(keep)))
        cur = b
    if cur < dur:
        marked.append((cur, dur, not bool(keep)))
    exp = []
    calls = []
    for a, b, kept in marked:
        if kept:
            i, j = W.index_at(a, rate), W.index_at(b, rate)
            if i is None or j is None:
                REC.skip(mon, "half-sample-time")
                return
            exp.extend(model[i:j])
        elif rep is not None:
            calls.append((a, b))
            exp.append(("gen", b - a))
    classes = ["C17:keep" if keep else "C17:delete"]
    if rep is not None:
        classes.append("C17:with-replacement")
    if any(x[1] == y[0] for x, y in zip(srt, srt[1:])):
        classes.append("C17:touching")
    if srt and (srt[0][0] == 0 or srt[-1][1] == dur):
        classes.append("C17:at-edges")
    if any(not W.on_grid(t, rate) for ab in srt for t in ab):
        classes.append("C17:off-grid")
    if dele is not None and not dele and not keep:
        classes.append("C17:empty-delete-list")
    sig = ("rfats", width, rate, bool(keep), rep is not None, len(srt), tuple(classes))
    if ctx.exc is not None:
        REC.violation(PROP, mon, "readFramesAtTimes", case, "raised %s: %s" % (type(ctx.exc).__name__, ctx.exc), sig, mech)
        return
    if type(ctx.result) is not bytes:
        # "returns ... the samples": as the immutable frame string the signature announces (`-> bytes`) - a bytearray is one that the
        # next in-place `+=` of a Wav built from it rewrites for everyone who holds it
        REC.violation(PROP, mon, "readFramesAtTimes", case, "returned a %s, not bytes" % type(ctx.result).__name__, ("rfats", "type"), dict(mech, result_type=type(ctx.result).__name__))
        return
    got = bytes(ctx.result)
    if rep is not None and all(W.on_grid(t, rate) for ab in srt for t in ab):
        # "for boundaries on sample positions, the result has the original length and every kept sample is at its original
        # position" - whatever the generator returned
        classes.append("C17:replacement:on-grid-positions-checked")
        gd = W.decode(got, width)
        why = None
        if gd is None or len(gd) != len(model):
            why = "%s samples returned, the recording has %d" % (None if gd is None else len(gd), len(model))
        else:
            for a, b, kept in marked:
                if kept:
                    i, j = W.index_at(a, rate), W.index_at(b, rate)
                    if gd[i:j] != model[i:j]:
                        why = "kept samples %d..%d are not at their original position" % (i, j)
                        break
        if why:
            REC.violation(PROP, mon, "readFramesAtTimes", case, "with every boundary on a sample position and a replacement generator: " + why, sig, dict(mech, positions=True))
            return
    # expand generated stretches with what the replacement function actually returned for that duration
    out = b""
    ok = True
    for item in exp:
        if isinstance(item, tuple):
            try:
                with core.paused():
                    out += rep(item[1])
            except Exception:
                ok = False
        else:
            out += W.encode([item], width)
    if not ok:
        REC.skip(mon, "replacement-function-raised")
        return
    if got != out:
        gd, od = W.decode(got, width), W.decode(out, width)
        REC.violation(PROP, mon, "readFramesAtTimes", case, "result has %s samples %r..., expected %s samples %r... (kept stretches in order%s)" % (
            None if gd is None else len(gd), (gd or [])[:10], None if od is None else len(od), (od or [])[:10], ", dropped stretches replaced" if rep else ""), sig, mech)
    else:
        REC.held(mon, sig if srt else None, classes, case)


def _kd_pre(ctx):
    keep, dele = ctx.arg(2, "keepIntervals", None), ctx.arg(3, "deleteIntervals", None)
    try:
        keep, dele = _listed(keep), _listed(dele)  # (never consumes a one-shot iterable, never keeps one in a case)
    except LookupError:
        REC.skip("keepdelete", "one-shot-iterable-of-unknown-content")
        return SKIP
    as_list = lambda x: [list(e) for e in x] if x is not None else None
    return (ctx.arg(0, "start"), ctx.arg(1, "stop"), as_list(keep), as_list(dele))


def _kd_post(ctx):
    start, stop, keep, dele = ctx.pre
    if ctx.exc is not None or (keep and dele) or not (num(start) and num(stop)) or not start < stop:
        return
    lst = sorted([tuple(x)[:2] for x in (keep or dele or [])])
    if not all(num(a) and num(b) and a < b for a, b in lst) or any(x[1] > y[0] for x, y in zip(lst, lst[1:])) or (lst and (lst[0][0] < start or lst[-1][1] > stop)):
        REC.skip("keepdelete", "outside-domain")
        return
    res = [tuple(x) for x in ctx.result]
    why = None
    if not res or res[0][0] != start or res[-1][1] != stop:
        why = "does not run from %r to %r" % (start, stop)
    elif any(x[1] != y[0] for x, y in zip(res, res[1:])) or any(not x[0] < x[1] for x in res):
        why = "is not a gap-free, overlap-free sequence of positive-length intervals"
    else:
        given = [x[:2] for x in res if x[2] == ("keep" if keep else "delete")]
        if lst and given != lst:
            why = "the %s intervals %r differ from the given list %r" % ("keep" if keep else "delete", given, lst)
    sig = ("kd", bool(keep), len(lst))
    if why:
        REC.violation(PROP, "keepdelete", "_computeKeepDeleteIntervals", {"call": "keepdelete", "start": start, "stop": stop, "keep": keep, "delete": dele}, "partition %r %s" % (res, why), sig, {"op": "keepdelete"})
    else:
        REC.held("keepdelete", sig, None, None)


# ---------------- extractSubwav ---------------------------------------------------
def _ex_pre(ctx):
    fn, out, s, e = ctx.arg(0, "fn"), ctx.arg(1, "outputFN"), ctx.arg(2, "startTime"), ctx.arg(3, "endTime")
    try:
        p, raw = read_wav(fn)
    except Exception:
        return SKIP
    return (p, raw, out, s, e)


def _ex_post(ctx):
    p, raw, out, s, e = ctx.pre
    width, rate = p.sampwidth, p.framerate
    model = W.decode(raw, width)
    if not (num(s) and num(e)) or not 0 <= s <= e <= p.nframes / rate:
        REC.skip("extractSubwav", "time-outside-domain")
        return
    i, j = W.index_at(s, rate), W.index_at(e, rate)
    if i is None or j is None:
        REC.skip("extractSubwav", "half-sample-time")
        return
    case = {"call": "extractSubwav", "width": width, "rate": rate, "samples": model, "s": s, "e": e,
            "in_place": os.path.abspath(str(out)) == os.path.abspath(str(ctx.arg(0, "fn")))}
    sig = ("extract", width, rate, W.on_grid(s, rate), W.on_grid(e, rate))
    mech = {"op": "extractSubwav", "width": width, "exc": type(ctx.exc).__name__ if ctx.exc else None}
    if ctx.exc is not None:
        REC.violation(PROP, "extractSubwav", "extractSubwav", case, "raised %s: %s" % (type(ctx.exc).__name__, ctx.exc), sig, mech)
        return
    try:
        p2, raw2 = read_wav(out)
    except Exception as ex:
        REC.violation(PROP, "extractSubwav", "extractSubwav", case, "the written file cannot be read: %s" % ex, sig, mech)
        return
    why = check_file(p, model, p2, raw2, i, j)
    if why:
        REC.violation(PROP, "extractSubwav", "extractSubwav", case, why, sig, mech)
    else:
        REC.held("extractSubwav", sig, ["C17:off-grid"] if not (W.on_grid(s, rate) and W.on_grid(e, rate)) else None, case)


def check_file(p, model, p2, raw2, i, j):
    if (p2.nchannels, p2.sampwidth, p2.framerate, p2.comptype) != (p.nchannels, p.sampwidth, p.framerate, p.comptype):
        return "written file parameters %r differ from the source's %r" % (tuple(p2)[:3], tuple(p)[:3])
    got = W.decode(raw2, p.sampwidth)
    if got != model[i:j] or p2.nframes != j - i:
        return "written file holds %s samples %r..., expected source samples [%d:%d] = %d samples %r..." % (
            None if got is None else len(got), (got or [])[:8], i, j, j - i, model[i:j][:8])
    return None


# ---------------- generators --------------------------------------------------------
def _gen_pre(ctx):
    g = ctx.self_
    return (g.sampleWidth, g.frameRate)


def _gen_post(ctx):
    width, rate = ctx.pre
    name = ctx.name.split(".")[-1]
    d = ctx.arg(0, "duration")
    if not num(d) or d < 0 or width not in (1, 2, 4):
        return
    x = M.F(d) * rate
    if abs((x - (x.numerator // x.denominator)) - M.F(1, 2)) <= M.F(1, 10 ** 6):
        REC.skip("generator", "half-sample-duration")
        return
    n = round(x)
    case = {"call": name, "width": width, "rate": rate, "duration": d, "freq": ctx.arg(1, "frequency", None), "amp": ctx.arg(2, "amplitude", None)}
    sig = (name, width, rate, W.on_grid(d, rate))
    if ctx.exc is not None:
        REC.violation(PROP, "generator", name, case, "raised %s: %s" % (type(ctx.exc).__name__, ctx.exc), sig, {"op": name})
        return
    got = W.decode(bytes(ctx.result), width)
    why = None
    if got is None or len(got) != n:
        why = "%s samples generated, expected round(%d x %r) = %d" % (None if got is None else len(got), rate, d, n)
    elif name == "generateSilence" and any(got):
        why = "silence contains non-zero samples"
    elif name == "generateSineWave":
        f = ctx.arg(1, "frequency")
        a = ctx.arg(2, "amplitude", None)
        if a is None:
            a = 2 ** (8 * width - 1) - 1
        for k in range(min(n, 50)):
            if abs(got[k] - a * math.sin(2 * math.pi * f * k / rate)) > 0.5000001 + abs(a) * 1e-9:
                why = "sample %d is %d, the sine definition gives %r" % (k, got[k], a * math.sin(2 * math.pi * f * k / rate))
                break
    if why:
        REC.violation(PROP, "generator", name, case, why, sig, {"op": name})
    else:
        REC.held("generator", sig, None, case)


# ---------------- splitAudioOnTier ---------------------------------------------------
def _sp_pre(ctx):
    wavFN, tgFN, tierName, outPath = ctx.arg(0, "wavFN"), ctx.arg(1, "tgFN"), ctx.arg(2, "tierName"), ctx.arg(3, "outputPath")
    flag, style, nopart, sil = ctx.arg(4, "outputTGFlag", False), ctx.arg(5, "nameStyle", None), ctx.arg(6, "noPartialIntervals", False), ctx.arg(7, "silenceLabel", None)
    try:
        p, raw = read_wav(wavFN)
        doc = PT.read_textgrid(open(tgFN, encoding="utf-8").read())
    except Exception:
        return SKIP
    return (p, raw, doc, wavFN, tierName, outPath, flag, style, nopart, sil)


def _sp_post(ctx):
    p, raw, doc, wavFN, tierName, outPath, flag, style, nopart, sil = ctx.pre
    mon = "split"
    width, rate = p.sampwidth, p.framerate
    model = W.decode(raw, width)
    tiers = {t["name"]: t for t in doc["tiers"]}
    if tierName not in tiers or tiers[tierName]["class"] != "IntervalTier":
        return
    entries = [e for e in tiers[tierName]["entries"] if e[2] != "" and e[2] != sil]
    if any(e[1] > p.nframes / rate for e in entries):
        REC.skip(mon, "entry-beyond-audio")
        return
    if not entries:
        # "one file per entry": a tier without (non-silent) entries asks for no file at all - nothing is written, nothing fails
        REC.outcome(mon, ctx.exc)
        case0 = {"call": "split", "width": width, "rate": rate, "samples": model, "doc": {"xmin": doc["xmin"], "xmax": doc["xmax"], "tiers": [dict(t, entries=[list(e) for e in t["entries"]]) for t in doc["tiers"]]},
                 "tier": tierName, "flag": flag, "style": style, "nopart": nopart, "sil": sil, "wavname": os.path.basename(wavFN)}
        if ctx.exc is not None or list(ctx.result or []) != []:
            REC.violation(PROP, mon, "splitAudioOnTier", case0, "the tier holds no entry to extract: expected no file and an empty result, got %s" % (
                "%s: %s" % (type(ctx.exc).__name__, ctx.exc) if ctx.exc is not None else repr(ctx.result)), ("split", "no-entries"), {"op": "split", "exc": type(ctx.exc).__name__ if ctx.exc else None, "no_entries": True})
        else:
            REC.held(mon, ("split", "no-entries"), ["C17:split:no-entries"], case0)
        return
    base = os.path.splitext(os.path.basename(wavFN))[0]
    case = {"call": "split", "width": width, "rate": rate, "samples": model, "doc": {"xmin": doc["xmin"], "xmax": doc["xmax"], "tiers": [dict(t, entries=[list(e) for e in t["entries"]]) for t in doc["tiers"]]},
            "tier": tierName, "flag": flag, "style": style, "nopart": nopart, "sil": sil, "wavname": os.path.basename(wavFN)}
    if base not in ("rec0", "rec1", "src"):
        REC.cls("C17:split:unusual-file-name")
    classes = ["C17:split:nameStyle:%s" % style]
    if flag is True:
        classes.append("C17:split:tg-true")
    elif isinstance(flag, str):
        classes.append("C17:split:tg-tiername")
    if nopart:
        classes.append("C17:split:noPartial")
    sig = ("split", width, rate, style, flag if not isinstance(flag, str) else "name", nopart, len(entries), len(doc["tiers"]))
    mech = {"op": "split", "exc": type(ctx.exc).__name__ if ctx.exc else None, "flag": bool(flag)}
    REC.outcome(mon, ctx.exc)
    if ctx.exc is not None and core.is_praatio_error(ctx.exc) and style in ("label", "append_no_i") and len({x[2] for x in entries}) != len(entries):
        # two entries with one label under a naming scheme that has no number in it: "one file per entry" cannot be had - the pinned tree
        # lets the later file replace the earlier one, a library that refuses instead is not judged
        REC.skip(mon, "duplicate-labels-under-a-label-only-name-style-refused")
        return
    if ctx.exc is not None:
        REC.violation(PROP, mon, "splitAudioOnTier", case, "raised %s: %s" % (type(ctx.exc).__name__, ctx.exc), sig, mech)
        return
    ret = [tuple(x) for x in ctx.result]
    if len(ret) != len(entries):
        REC.violation(PROP, mon, "splitAudioOnTier", case, "%d files reported for %d entries" % (len(ret), len(entries)), sig, mech)
        return
    mode = "strict" if nopart else "truncated"
    for k, (e, r) in enumerate(zip(entries, ret)):
        if (r[0], r[1]) != (e[0], e[1]):
            REC.violation(PROP, mon, "splitAudioOnTier", case, "returned item %d is %r for entry %r" % (k, r, e), sig, mech)
            return
        # "one file per entry", named the way nameStyle documents: None -> output name plus the interval number, 'append' -> that plus the
        # label, 'append_no_i' -> name and label, 'label' -> the label alone (the width and base of the number are not documented)
        import re as _re

        stem = r[2][:-4] if r[2].lower().endswith(".wav") else None
        num = _re.compile(r"^0*(\d+)$")
        okname = stem is not None
        if okname and style == "label":
            okname = stem == e[2]
        elif okname and style == "append_no_i":
            okname = stem == "%s_%s" % (base, e[2])
        elif okname and style == "append":
            m_ = stem.startswith(base + "_") and stem.endswith("_" + e[2]) and num.match(stem[len(base) + 1:len(stem) - len(e[2]) - 1])
            okname = bool(m_) and int(m_.group(1)) in (k, k + 1)
        elif okname:
            m_ = stem.startswith(base + "_") and num.match(stem[len(base) + 1:])
            okname = bool(m_) and int(m_.group(1)) in (k, k + 1)
        if not okname:
            REC.violation(PROP, mon, "splitAudioOnTier", case, "entry %d %r (nameStyle %r, recording %r) was written to %r: not the documented name" % (k, e, style, base, r[2]), sig, dict(mech, naming=True))
            return
        fn = os.path.join(outPath, r[2])
        i, j = W.index_at(e[0], rate), W.index_at(e[1], rate)
        if i is None or j is None:
            continue
        try:
            p2, raw2 = read_wav(fn)
        except Exception as ex:
            REC.violation(PROP, mon, "splitAudioOnTier", case, "file %r reported but cannot be read: %s" % (r[2], ex), sig, mech)
            return
        labels_unique = len({x[2] for x in entries}) == len(entries)
        if style in ("label", "append_no_i") and not labels_unique:
            pass  # later entries overwrite earlier files with the same name: content of shared names is not judged
        else:
            why = check_file(p, model, p2, raw2, i, j)
            if why:
                REC.violation(PROP, mon, "splitAudioOnTier", case, "entry %d %r -> %s: %s" % (k, e, r[2], why), sig, mech)
                return
        if flag is not False and (labels_unique or style in (None, "append")):
            tgfn = os.path.splitext(fn)[0] + ".TextGrid"
            try:
                sub = PT.read_textgrid(open(tgfn, encoding="utf-8").read())
            except Exception as ex:
                REC.violation(PROP, mon, "splitAudioOnTier", case, "cropped TextGrid for entry %d missing or not well-formed: %s" % (k, ex), sig, mech)
                return
            length = M.F(e[1]) - M.F(e[0])
            scale = max(abs(e[1]), 1.0)
            if sub["xmin"] != 0 or not M.num_close(sub["xmax"], length, scale):
                REC.violation(PROP, mon, "splitAudioOnTier", case, "cropped TextGrid for entry %d spans [%r, %r], expected [0, %r]" % (k, sub["xmin"], sub["xmax"], float(length)), sig, mech)
                return
            want = [t for t in doc["tiers"] if (t["name"] == flag if isinstance(flag, str) else True)]
            if [t["name"] for t in sub["tiers"]] != [t["name"] for t in want]:
                REC.violation(PROP, mon, "splitAudioOnTier", case, "cropped TextGrid tiers %r, expected %r" % ([t["name"] for t in sub["tiers"]], [t["name"] for t in want]), sig, mech)
                return
            for t, st in zip(want, sub["tiers"]):
                kind = "I" if t["class"] == "IntervalTier" else "P"
                if kind == "I":
                    # "the optional cropped TextGrids span exactly [0, interval length]" - every interval tier in them does: what is not
                    # labelled is written as blank intervals, a tier without anything under this entry as one blank from 0 to the end
                    ivs = st["entries"]
                    if not ivs or ivs[0][0] != 0 or not M.num_close(ivs[-1][1], length, scale) or any(x[1] != y[0] for x, y in zip(ivs, ivs[1:])):
                        REC.violation(PROP, mon, "splitAudioOnTier", case, "cropped TextGrid for entry %d, tier %r: its intervals %r do not cover [0, %r] without gaps" % (
                            k, t["name"], ivs[:6], float(length)), sig, dict(mech, coverage=True))
                        return
                src = [x for x in t["entries"] if x[-1] != ""]
                exp, _, _ = M.crop(kind, src, t["xmin"], t["xmax"], e[0], e[1], mode, True)
                obs = [x for x in st["entries"] if x[-1] != ""]
                if not exp and t["name"] != tierName:
                    classes.append("C17:split:empty-secondary-tier")
                if kind == "I" and exp:
                    # the cropped TextGrid is written with the default minimum interval length: a gap or interval shorter than 1e-8 s
                    # in it is absorbed on saving (C04's subject, judged there) - such a case is not judged here
                    cuts = [M.F(0)] + [M.F(v) for x in exp for v in x[:2]] + [M.F(e[1]) - M.F(e[0])]
                    if any(0 < y - x < M.F(1, 10 ** 8) * 2 for x, y in zip(cuts, cuts[1:])):
                        REC.skip(mon, "sliver-in-cropped-textgrid-(C04)")
                        continue
                why = M.entries_close(obs, exp, scale)
                if why:
                    REC.violation(PROP, mon, "splitAudioOnTier", case, "cropped TextGrid for entry %d, tier %r: %s; observed %r expected %r" % (k, t["name"], why, obs, M.fmt_entries(exp)), sig, mech)
                    return
                if t["name"] == tierName and e[2] not in [x[-1] for x in obs]:
                    REC.violation(PROP, mon, "splitAudioOnTier", case, "cropped TextGrid for entry %d does not contain the entry's label %r" % (k, e[2]), sig, mech)
                    return
    REC.held(mon, sig, classes, case)


_installed = False


def install():
    global _installed
    if _installed:
        return
    _installed = True
    from praatio import audio, praatio_scripts

    core.attach(audio, "readFramesAtTimes", "rfats", _rf_pre, _rf_post, method=False)
    core.attach(audio, "_computeKeepDeleteIntervals", "keepdelete", _kd_pre, _kd_post, method=False)
    core.attach(audio, "extractSubwav", "extractSubwav", _ex_pre, _ex_post, method=False)
    core.attach(audio.AudioGenerator, "generateSilence", "generator", _gen_pre, _gen_post)
    core.attach(audio.AudioGenerator, "generateSineWave", "generator", _gen_pre, _gen_post)
    core.attach(praatio_scripts, "splitAudioOnTier", "split", _sp_pre, _sp_post, method=False)


RATES = (8, 1000, 8000, 16000, 44100)


def make_wav(rng, work, name, width=None, rate=None, n=None):
    width = width or rng.choice((1, 2, 2, 4))
    rate = rate or rng.choice(RATES)
    n = n if n is not None else rng.randrange(8, 300)
    lim = 2 ** (8 * width - 1)
    samples = [rng.randrange(-lim, lim) for _ in range(n)]
    fn = os.path.join(str(work), name)
    wf = wave.open(fn, "w")
    wf.setparams((1, width, rate, n, "NONE", "not compressed"))
    wf.writeframes(W.encode(samples, width))
    wf.close()
    return fn, width, rate, n, samples


def interval_list(rng, n, rate, on_grid):
    dur = n / rate
    k = rng.randrange(0, 5)
    if on_grid:
        pts = sorted(rng.sample(range(0, n + 1), min(2 * k, n + 1)))
        pts = [p / rate for p in pts]
    else:
        pts = sorted(rng.uniform(0, dur) for _ in range(2 * k))
    if pts and rng.random() < 0.3:
        pts[0] = 0.0
    if pts and rng.random() < 0.3:
        pts[-1] = dur
    out = []
    i = 0
    while i + 1 < len(pts):
        if pts[i] < pts[i + 1]:
            out.append((pts[i], pts[i + 1]))
        i += 1 if rng.random() < 0.35 else 2  # touching with probability .35
    return out


def workload(tier, rng, shard, nshards, work):
    from praatio import audio, praatio_scripts

    sink = io.StringIO()
    with contextlib.redirect_stdout(sink):
        n1 = (3000 if tier == "quick" else 100000) // nshards
        for k in range(n1):
            if k % 20 == 0:
                fn, width, rate, n, samples = make_wav(rng, work, "src.wav", n=rng.randrange(5000, 20000) if k % 300 == 40 else None)
                gen_ = audio.AudioGenerator(width, rate)
            on_grid = rng.random() < 0.5
            lst = interval_list(rng, n, rate, on_grid)
            marker = W.encode([7], width)
            sf, sa = rng.choice([100, 440]), rng.choice([None, 50])
            ri = rng.randrange(4)
            rep = [None, gen_.generateSilence, lambda d, _r=rate, _m=marker: _m * round(_r * d), gen_.buildSineWaveGenerator(sf, sa)][ri]
            _rep_kind[:] = [["none"], ["silence"], ["marker"], ["sine", sf, sa]][ri]
            if k % 20 == 0 or k % 3 == 0:
                af = wave.open(fn, "r")  # otherwise the handle of the previous call is used again (it has been read from)
            else:
                REC.cls("C17:reused-handle")
            if rng.random() < 0.3:
                rng.shuffle(lst)
                if lst != sorted(lst):
                    REC.cls("C17:unsorted-list")
            r = rng.random()
            arg = lst
            if k % 9 == 4:
                # the intervals arrive as a one-shot iterable (zip(starts, ends), a generator), as they do when they are computed
                arg = rng.choice([lambda: iter(lst), lambda: (x for x in lst), lambda: zip([a for a, _b in lst], [b for _a, b in lst])])()
                _iter_of.clear()
                _iter_of[id(arg)] = list(lst)
                REC.cls("C17:intervals-as-one-shot-iterable")
            if r < 0.45:
                call(audio.readFramesAtTimes, af, arg, None, rep)
            elif r < 0.9:
                call(audio.readFramesAtTimes, af, None, arg, rep)
            elif r < 0.95:
                call(audio.readFramesAtTimes, af, lst or [(0.0, n / rate / 2)], [(0.0, n / rate / 3)], rep)
            else:
                over = rng.choice([1 / rate, 0.5, 0.45 / rate, 0.1 / rate, 1e-9, math.ulp(n / rate)])  # whole samples, and less than half of one
                start = rng.choice([0.0, n / rate / 2])
                if rng.random() < 0.5:
                    call(audio.readFramesAtTimes, af, [(start, n / rate + over)], None, rep)
                else:
                    call(audio.readFramesAtTimes, af, None, [(start, n / rate + over)], rep)
            if rng.random() < 0.15:
                call(audio.readFramesAtTimes, af, None, rng.choice([None, []]), rep)
            if k % 5 == 0:
                s, e = sorted((rng.randrange(0, n + 1) / rate, rng.randrange(0, n + 1) / rate)) if on_grid else sorted((rng.uniform(0, n / rate), rng.uniform(0, n / rate)))
                call(audio.extractSubwav, fn, os.path.join(str(work), "sub.wav"), s, e)
                if k % 15 == 0:
                    # a stretch of no length is a stretch: at the very start (both times 0), at the very end, somewhere inside
                    z = rng.choice([0, 0.0, n / rate, rng.randrange(0, n + 1) / rate])
                    REC.cls("C17:extract-zero-length")
                    call(audio.extractSubwav, fn, os.path.join(str(work), "sub.wav"), z, z)
                    call(audio.extractSubwav, fn, os.path.join(str(work), "sub.wav"), 0, rng.choice([0, 0.0]))
                if k % 10 == 0 or n >= 5000:
                    # trimming a recording in place: the output path is the source path
                    import shutil

                    inplace = os.path.join(str(work), "inplace.wav")
                    shutil.copyfile(fn, inplace)
                    call(audio.extractSubwav, inplace, inplace, s, e)
                    REC.cls("C17:extract-in-place" + (":long-recording" if n >= 5000 else ""))
            if k % 3 == 0:
                d = rng.choice([0.0, rng.randrange(0, 200) / rate, rng.uniform(0, 0.05), 1 / 3, 0.01, rng.choice([4095, 4096, 4097, 8193, 65537, 1025, 1024]) / rate])  # (also sample counts beside a power of two: one more than a block)
                call(gen_.generateSilence, d)
                call(gen_.generateSineWave, d, rng.choice([50, 200, 441]), rng.choice([None, 100, 1]))
        n2 = (300 if tier == "quick" else 10000) // nshards
        for k in range(n2):
            # (recordings are named by people: blanks, percent signs, several dots)
            wavname = ("rec%d.wav" % (k % 2)) if k % 5 else rng.choice(["take 2.wav", "50%done.wav", "a.b.c.wav", "x_%s.wav", "100%%.wav"])
            fn, width, rate, n, samples = make_wav(rng, work, wavname, n=rng.randrange(60, 400))
            dur = n / rate
            from praatio.data_classes.textgrid import Textgrid

            tg = Textgrid()
            pts = sorted({round(rng.uniform(0, dur), 6) if rng.random() < 0.5 else rng.randrange(0, n + 1) / rate for _ in range(rng.randrange(2, 9))})
            ents = []
            i = 0
            labs = ["w%d" % j for j in range(12)]
            if rng.random() < 0.25:
                labs[rng.randrange(4)] = rng.choice(["100%", "5%%", "a%sb", "x y", "%d"])  # labels end up in file names: percent signs, blanks
                REC.cls("C17:split:label-with-percent-or-blank")
            while i + 1 < len(pts):
                lab = labs[len(ents)] if rng.random() < 0.8 else rng.choice(["", "sil", "w0", "s", "il", "si"])  # (labels that are part of the word "sil")
                ents.append((pts[i], pts[i + 1], lab))
                i += rng.choice((1, 1, 2))
            if rng.random() < 0.04:
                ents = [(a, b, rng.choice(["", "sil"])) for a, b, _l in ents]  # nothing but pauses on the target tier
            if not ents:
                continue
            t0 = 0.0
            if rng.random() < 0.12 and len(pts) >= 2 and pts[0] > 0:
                # the annotation covers an excerpt of the recording on the recording's own time axis (the textgrid does not start at
                # 0), and now and then one entry of the target tier covers all of it
                t0, dur = pts[0], pts[-1]
                if rng.random() < 0.6:
                    ents = [(t0, dur, "w0")]
                ents = [e for e in ents if e[1] <= dur]
                REC.cls("C17:split:textgrid-starts-after-0" + (":one-entry-covers-it" if len(ents) == 1 and ents[0][:2] == (t0, dur) else ""))
            tg.addTier(make_tier("I", "words", ents, t0, dur), reportingMode="silence")
            # secondary tiers: one with entries only in part of the recording (so some intervals have nothing under them), one point tier
            half = (dur - t0) * rng.choice([0.3, 0.5, 1.0])
            sec = [(a + t0, b + t0, l) for a, b, l in gen.rand_interval_entries(rng, 6, half, labels=["p", "q"]) if b + t0 <= dur]
            tg.addTier(make_tier("I", "phones", sec, t0, dur), reportingMode="silence")
            if rng.random() < 0.6:
                mk = {t0 + rng.uniform(0, half) for _ in range(rng.randrange(0, 4))}
                if rng.random() < 0.5:
                    mk |= {rng.choice(ents)[rng.randrange(2)] for _ in range(2)}  # marks exactly on the start / end of an entry
                tg.addTier(make_tier("P", "marks", [(t, "m") for t in sorted(mk)], t0, dur), reportingMode="silence")
            tgfn = os.path.join(str(work), "rec.TextGrid")
            with core.paused():
                tg.save(tgfn, rng.choice(("short_textgrid", "long_textgrid")), True, reportingMode="silence")
            out = os.path.join(str(work), "out%d" % (k % 2))
            shutil.rmtree(out, ignore_errors=True)
            flag = rng.choice([False, True, True, "phones", "words"])
            style = rng.choice([None, "append", "append_no_i", "label"])
            call(praatio_scripts.splitAudioOnTier, fn, tgfn, "words", out, flag, style, rng.random() < 0.4, rng.choice([None, None, "sil"]))


def replay(v, work):
    from praatio import audio, praatio_scripts

    c = v["case"]
    with contextlib.redirect_stdout(io.StringIO()):
        if "samples" in c:
            fn = os.path.join(str(work), c.get("wavname") or "src.wav")
            wf = wave.open(fn, "w")
            wf.setparams((1, c["width"], c["rate"], len(c["samples"]), "NONE", "not compressed"))
            wf.writeframes(W.encode(c["samples"], c["width"]))
            wf.close()
        if c["call"] == "readFramesAtTimes":
            g = audio.AudioGenerator(c["width"], c["rate"])
            rk = c.get("replace_kind") or ["silence"]
            rep = None
            if c["replace"]:
                rep = g.buildSineWaveGenerator(rk[1], rk[2]) if rk[0] == "sine" else (
                    (lambda d, _r=c["rate"], _m=W.encode([7], c["width"]): _m * round(_r * d)) if rk[0] == "marker" else g.generateSilence)
            _rep_kind[:] = rk
            call(audio.readFramesAtTimes, wave.open(fn, "r"), [tuple(x) for x in c["keep"]] if c["keep"] is not None else None,
                 [tuple(x) for x in c["delete"]] if c["delete"] is not None else None, rep)
        elif c["call"] == "extractSubwav":
            call(audio.extractSubwav, fn, fn if c.get("in_place") else os.path.join(str(work), "sub.wav"), c["s"], c["e"])
        elif c["call"] in ("generateSilence", "generateSineWave"):
            g = audio.AudioGenerator(c["width"], c["rate"])
            if c["call"] == "generateSilence":
                call(g.generateSilence, c["duration"])
            else:
                call(g.generateSineWave, c["duration"], c["freq"], c["amp"])
        elif c["call"] == "keepdelete":
            call(audio._computeKeepDeleteIntervals, c["start"], c["stop"], c["keep"], c["delete"])
        elif c["call"] == "split":
            tgfn = os.path.join(str(work), "rec.TextGrid")
            spec = dict(c["doc"], tiers=[dict(t, entries=[tuple(e) for e in t["entries"]]) for t in c["doc"]["tiers"]])
            with open(tgfn, "w", encoding="utf-8") as fd:
                fd.write(PT.write_short(spec))
            call(praatio_scripts.splitAudioOnTier, fn, tgfn, c["tier"], os.path.join(str(work), "out"), c["flag"], c["style"], c["nopart"], c["sil"])


CLASSIFIERS = {}

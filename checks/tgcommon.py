"""Shared pieces of the file-format checks (C01-C04)."""
from vmon import snap

FORMATS = ("short_textgrid", "long_textgrid", "json", "textgrid_json")
TEXT_FORMATS = ("short_textgrid", "long_textgrid")


def build_tg(data):
    """plain data (workloads.tggen) -> real praatio Textgrid through the public constructors"""
    from praatio.data_classes.interval_tier import IntervalTier
    from praatio.data_classes.point_tier import PointTier
    from praatio.data_classes.textgrid import Textgrid

    tg = Textgrid(data["min"], data["max"])
    for t in data["tiers"]:
        klass = IntervalTier if t["t"] == "I" else PointTier
        tg.addTier(klass(t["name"], [tuple(e) for e in t["entries"]], t["min"], t["max"]), reportingMode="silence")
    return tg


def match_time(orig, got):
    """bit-identical, or an integer n with |orig - n| <= 1e-14 * max(|orig|, |n|) (the near-integer rule of C01)"""
    try:
        if got == orig:
            return True
        return float(got).is_integer() and abs(orig - got) <= 1e-14 * max(abs(orig), abs(got))
    except (TypeError, ValueError, OverflowError):
        return False


def written_range(t):
    """smallest and largest value the timestamp t may legitimately come back as"""
    import math

    d = 1.0000001e-14 * abs(t)
    lo, hi = t, t
    n1, n2 = math.ceil(t - d), math.floor(t + d)
    if n1 <= n2:
        lo, hi = min(t, float(n1)), max(t, float(n2))
    return lo, hi


def collapse_free(s):
    """distinct timestamps (entry boundaries, tier spans, the span the file is written with) stay distinct and ordered
    whatever way the near-integer rule is applied"""
    for t in s["tiers"]:
        vals = {s["min"], s["max"], t["min"], t["max"]}
        for e in t["entries"]:
            vals.update(e[:-1])
        seq = sorted(vals)
        for a, b in zip(seq, seq[1:]):
            if not written_range(a)[1] < written_range(b)[0]:
                return False
    return True


def fill(entries, lo, hi):
    """ideal partition of [lo, hi]: entries plus maximal blanks (no sliver handling)"""
    out = []
    cur = lo
    for a, b, l in entries:
        if a > cur:
            out.append((cur, a, ""))
        out.append((a, b, l))
        cur = b
    if cur < hi:
        out.append((cur, hi, ""))
    return out


def expected_roundtrip(s, fmt, blanks, keep_empty):
    """s: tg snapshot before save.  -> expected snapshot-like dict after save+open (times are the ORIGINAL floats;
    compare with match_time)."""
    tiers = []
    for t in s["tiers"]:
        ents = [tuple(e) for e in t["entries"]]
        if t["t"] == "I" and blanks:
            ents = fill(ents, s["min"], s["max"])
        if not keep_empty:
            ents = [e for e in ents if e[-1] != ""]
        if fmt == "json":
            lo, hi = s["min"], s["max"]
        else:
            lo, hi = t["min"], t["max"]
        firsts = [e[0] for e in ents]
        lasts = [e[-2] for e in ents]
        tiers.append({"t": t["t"], "name": t["name"], "min": min([lo] + firsts), "max": max([hi] + lasts), "entries": ents})
    return {"min": s["min"], "max": s["max"], "tiers": tiers}


def compare_tg(exp, got):
    """exp from expected_roundtrip, got = tg snapshot.  None if they agree, else a message."""
    if [t["name"] for t in got["tiers"]] != [t["name"] for t in exp["tiers"]]:
        return "tier names/order %r, expected %r" % ([t["name"] for t in got["tiers"]], [t["name"] for t in exp["tiers"]])
    if not match_time(exp["min"], got["min"]) or not match_time(exp["max"], got["max"]):
        return "textgrid span [%r, %r], expected [%r, %r]" % (got["min"], got["max"], exp["min"], exp["max"])
    for te, tg_ in zip(exp["tiers"], got["tiers"]):
        if te["t"] != tg_["t"]:
            return "tier %r type %s, expected %s" % (te["name"], tg_["t"], te["t"])
        if len(te["entries"]) != len(tg_["entries"]):
            return "tier %r has %d entries, expected %d: %r vs %r" % (te["name"], len(tg_["entries"]), len(te["entries"]), tg_["entries"][:6], te["entries"][:6])
        for i, (a, b) in enumerate(zip(te["entries"], tg_["entries"])):
            if a[-1] != b[-1]:
                return "tier %r entry %d label %r, expected %r" % (te["name"], i, b[-1], a[-1])
            for u, v in zip(a[:-1], b[:-1]):
                if not match_time(u, v):
                    return "tier %r entry %d time %r, expected %r" % (te["name"], i, v, u)
        if not match_time(te["min"], tg_["min"]) or not match_time(te["max"], tg_["max"]):
            return "tier %r span [%r, %r], expected [%r, %r]" % (te["name"], tg_["min"], tg_["max"], te["min"], te["max"])
    return None


def data_of_snap(s):
    return {"min": s["min"], "max": s["max"], "tiers": [dict(t) for t in s["tiers"]]}


def wellformed_tg_snap(s):
    if not s["tiers"] or s["min"] is None or s["max"] is None:
        return False
    names = [t["name"] for t in s["tiers"]]
    if len(set(names)) != len(names):
        return False
    for t in s["tiers"]:
        if not snap.wellformed_times(t) or t["min"] < s["min"] or t["max"] > s["max"]:
            return False
        if not isinstance(t["name"], str) or "\n" in t["name"] or "\r" in t["name"] or t["name"] == "":
            return False
        for e in t["entries"]:
            if "\r" in e[-1]:
                return False
    return True  # times below zero are legal in Praat and are judged like any other

"""C04 - saving adds only blanks and absorbs only sub-threshold slivers."""
import contextlib
import io
import itertools
import os

from vmon import core, snap
from vmon.core import REC, SKIP
from models import praat_text as PT
from workloads import tggen
from checks.common import call, desc, num
from checks import tgcommon as TC
from checks.c02 import plain_of_dict, snap_like

PROP = "C04"
NSHARDS = {"quick": 8, "thorough": 16}
TIMEOUT = {"quick": 900, "thorough": 5400}
RULE = (
    "case = one document written by Textgrid.save / textgrid_io.getTextgridAsStr, decoded by the independent spec reader and "
    "compared with the declarative fill/sliver specification (written = the long elements of the ideal blank-filled partition, in "
    "order, with their labels; boundaries original unless a sliver chain next to them was absorbed; first/last boundary = file span), "
    "or one raising save with a pre-existing destination; interval tiers are assembled from segments of length "
    "{1e-12 .. 5e-8, 1e-3, 0.05, 0.07, 1} labelled or gap so that slivers occur first, in the middle, last, next to gaps and in chains of "
    "1-3 (enumerated completely) and at random; x minimumIntervalLength {None, 1e-8, 1e-3, 0.06} x overrides {none, below, equal, "
    "above, inside the data} x 4 formats x includeBlankSpaces. distinct = (format, blanks, threshold, override class, long/sliver "
    "pattern with labels); non-trivial = the tier has at least one sliver or an override is in use."
)
ASSUMPTIONS = [
    "an element is a sliver iff end - start < threshold evaluated in floats on the original boundaries; at least one element of the filled partition is long",
    "the boundary between two written neighbours may lie anywhere inside the sliver chain absorbed between them",
    "'raises instead of writing an inconsistent file' is demanded for interval tiers with blank filling on (D6)",
]
EXHAUSTIVE = {"quick": True, "thorough": True}
EXHAUSTIVE_DOMAIN = {
    "quick": "sliver shapes: position {first, middle, last} x chain length 1-3 x each sliver labelled/gap x neighbour labelled/gap x sliver length {1e-12, 5e-9, 9.9e-9} x threshold {1e-8, 1e-3, None}",
    "thorough": "same shape enumeration with sliver lengths {1e-12, 1e-10, 5e-9, 9.9e-9} and thresholds {None, 1e-8, 1e-3, 0.06} in all four formats",
}
THRESHOLDS = (None, 1e-8, 1e-3, 0.06)
SEG_LENGTHS = (1e-12, 2e-11, 1e-10, 5e-9, 9.9e-9, 1.01e-8, 2e-8, 5e-8, 1e-3, 0.05, 0.07, 1.0)


def floors(tier):
    f = {"evals": {"write": 5000, "write.raising": 200}, "classes": {}}
    for c in ("sliver-at-start", "sliver-in-middle", "sliver-at-end", "sliver-chain>=2", "labelled-sliver", "threshold-None", "blanks-off-verbatim",
              "override-raises", "override-above", "override-below", "override-equal", "dest-untouched", "override-ulps-inside-data", "override-cuts-off-a-point-only"):
        f["classes"]["C04:" + c] = 30
    for fmt in TC.FORMATS:
        f["classes"]["C04:format:" + fmt] = 300
    f["evals"]["write.file"] = 300
    f["classes"]["C04:save:override"] = 100
    f["classes"]["C04:save:zero-override"] = 20
    return f


def spec_written(entries, lo, hi, T):
    """-> list of (label, start_lo, start_hi, end_lo, end_hi) the written tier must match, or None when nothing is long"""
    F = TC.fill(entries, lo, hi)
    if not F:
        F = [(lo, hi, "")]
    if T is None:
        return [(e[2], e[0], e[0], e[1], e[1]) for e in F], F, []
    longs = [i for i, e in enumerate(F) if not (e[1] - e[0] < T)]
    if not longs:
        return None, F, []
    out = []
    for k, i in enumerate(longs):
        e = F[i]
        if k == 0:
            s_lo = s_hi = lo
        else:
            p = longs[k - 1]
            s_lo, s_hi = (F[p][1], e[0]) if p + 1 != i else (e[0], e[0])
        if k == len(longs) - 1:
            e_lo = e_hi = hi
        else:
            q = longs[k + 1]
            e_lo, e_hi = (e[1], F[q][0]) if q != i + 1 else (e[1], e[1])
        out.append((e[2], s_lo, s_hi, e_lo, e_hi))
    slivers = [i for i in range(len(F)) if i not in longs]
    return out, F, slivers


def in_range(v, a, b):
    return (a <= v <= b) or TC.match_time(a, v) or TC.match_time(b, v)


def judge_written(data, fmt, blanks, minT, maxT, thr, text):
    classes = ["C04:format:" + fmt]
    try:
        doc = PT.read_any(text, fmt)
    except PT.SpecError as e:
        return False, "document not well-formed: %s" % e, classes
    lo = data["min"] if minT is None else minT
    hi = data["max"] if maxT is None else maxT
    for which, v, ref in (("min", minT, data["min"]), ("max", maxT, data["max"])):
        if v is not None:
            classes.append("C04:override-" + ("equal" if v == ref else ("above" if v > ref else "below")))
    if not TC.match_time(lo, doc["xmin"]) or not TC.match_time(hi, doc["xmax"]):
        return False, "file span [%r, %r], requested [%r, %r]" % (doc["xmin"], doc["xmax"], lo, hi), classes
    if len(doc["tiers"]) != len(data["tiers"]):
        return False, "tier count %d, expected %d" % (len(doc["tiers"]), len(data["tiers"])), classes
    for t, dt in zip(data["tiers"], doc["tiers"]):
        dec = [tuple(e) for e in dt["entries"]]
        ents = [tuple(e) for e in t["entries"]]
        if t["t"] == "P" or not blanks:
            if not blanks and t["t"] == "I":
                classes.append("C04:blanks-off-verbatim")
            if len(dec) != len(ents) or any(a[-1] != b[-1] or not all(TC.match_time(u, v) for u, v in zip(a[:-1], b[:-1])) for a, b in zip(ents, dec)):
                return False, "tier %r must be written verbatim (%s): %r vs in memory %r" % (t["name"], "point tier" if t["t"] == "P" else "blank filling off", dec[:6], ents[:6]), classes
            continue
        spec, F, slivers = spec_written(ents, lo, hi, thr)
        if spec is None:
            return None, "no-long-element", classes
        if thr is None:
            classes.append("C04:threshold-None")
        for i in slivers:
            classes.append("C04:sliver-at-start" if i == 0 else ("C04:sliver-at-end" if i == len(F) - 1 else "C04:sliver-in-middle"))
            if F[i][2] != "":
                classes.append("C04:labelled-sliver")
        if any(i + 1 in slivers for i in slivers):
            classes.append("C04:sliver-chain>=2")
        if len(dec) != len(spec):
            return False, "tier %r: %d intervals written, the specification gives %d (long elements of the filled partition): written %r, partition %r, threshold %r" % (
                t["name"], len(dec), len(spec), dec[:8], F[:8], thr), classes
        for k, (w, sp) in enumerate(zip(dec, spec)):
            lab, s_lo, s_hi, e_lo, e_hi = sp
            if w[2] != lab:
                return False, "tier %r written interval %d has label %r, expected %r (partition %r, threshold %r)" % (t["name"], k, w[2], lab, F[:8], thr), classes
            if not in_range(w[0], s_lo, s_hi) or not in_range(w[1], e_lo, e_hi):
                return False, "tier %r written interval %d is (%r, %r); allowed start [%r, %r], end [%r, %r] (partition %r, threshold %r)" % (
                    t["name"], k, w[0], w[1], s_lo, s_hi, e_lo, e_hi, F[:8], thr), classes
            if not w[0] < w[1]:
                return False, "tier %r written interval %d (%r, %r) has no positive length" % (t["name"], k, w[0], w[1]), classes
            if thr is not None and (w[1] - w[0]) < thr * (1 - 1e-9) and not (TC.match_time(s_lo, w[0]) and w[0] != s_lo or TC.match_time(e_hi, w[1]) and w[1] != e_hi):
                return False, "tier %r written interval %d (%r, %r) is shorter than the threshold %r" % (t["name"], k, w[0], w[1], thr), classes
            if k and dec[k - 1][1] != w[0]:
                return False, "tier %r: gap or overlap between written intervals %d and %d (%r vs %r)" % (t["name"], k - 1, k, dec[k - 1][1], w[0]), classes
    return True, "", classes


def must_raise(data, blanks, minT, maxT):
    if not blanks:
        return False
    lo = data["min"] if minT is None else minT
    hi = data["max"] if maxT is None else maxT
    # "if an entry would fall outside the requested span the save raises": intervals and points alike (save's docstring: "If
    # maxTimestamp is smaller than timestamps in your textgrid, an exception will be thrown")
    return any(t["entries"] and (t["entries"][0][0] < lo or t["entries"][-1][-2] > hi) for t in data["tiers"])


def domain_ok(data, fmt, blanks, minT, maxT, thr):
    if fmt not in TC.FORMATS or not isinstance(blanks, bool) or any(x is not None and not num(x) for x in (minT, maxT, thr)):
        return "outside-domain-args"
    s = snap_like(data)
    if not TC.wellformed_tg_snap(s):
        return "textgrid-not-well-formed"
    lo = data["min"] if minT is None else minT
    hi = data["max"] if maxT is None else maxT
    if not lo < hi:
        return "empty-span"
    if not TC.collapse_free(dict(s, min=min(lo, data["min"]), max=max(hi, data["max"]))) or not TC.collapse_free(dict(s, min=lo, max=hi)):
        return "near-integer-rule-would-merge-distinct-timestamps"
    return None


def _sig(data, fmt, blanks, minT, maxT, thr):
    pat = []
    lo = data["min"] if minT is None else minT
    hi = data["max"] if maxT is None else maxT
    for t in data["tiers"]:
        if t["t"] == "I":
            F = TC.fill([tuple(e) for e in t["entries"]], lo, hi)
            pat.append(tuple(("S" if (thr is not None and e[1] - e[0] < thr) else "L") + ("l" if e[2] else "b") for e in F))
    return (fmt, blanks, thr, minT is None, maxT is None, tuple(pat))


_MISSING = object()


def _str_pre(ctx):
    try:
        data = plain_of_dict(ctx.arg(0, "tg"))
    except Exception:
        return SKIP
    args = (ctx.arg(1, "format"), ctx.arg(2, "includeBlankSpaces"), ctx.arg(3, "minTimestamp", None), ctx.arg(4, "maxTimestamp", None),
            ctx.arg(5, "minimumIntervalLength", 1e-8))
    why = domain_ok(data, *args)
    if why == NEAR and (args[4] is None or args[1] is False) and args[2] is None and args[3] is None:
        # D3b leaves the VALUES of such a document unjudged; one clause stands whatever the values are: with nothing absorbed "every
        # written interval still has positive length"
        return ("positive-length", data) + args
    if why:
        REC.skip("write", why)
        return SKIP
    return (data,) + args


NEAR = "near-integer-rule-would-merge-distinct-timestamps"


def _positive_length(ctx):
    _tag, data, fmt, blanks, minT, maxT, thr = ctx.pre
    case = {"call": "write", "tg": snap_like(data), "format": fmt, "blanks": blanks, "minT": minT, "maxT": maxT, "thr": thr, "thr_named": True}
    if ctx.exc is not None:
        REC.skip("write", NEAR)
        return
    try:
        doc = PT.read_any(ctx.result, fmt)
    except PT.SpecError:
        REC.skip("write", NEAR)
        return
    for t, dt in zip(data["tiers"], doc["tiers"]):
        if t["t"] != "I":
            continue
        for w in dt["entries"]:
            if not w[0] < w[1]:
                src = [e for e in t["entries"] if TC.match_time(e[0], w[0]) or TC.match_time(e[1], w[1])]
                REC.violation(PROP, "write", "getTextgridAsStr", case, "nothing is absorbed (threshold %r, blank filling %r), yet tier %r is written with the interval (%r, %r, %r) "
                              "of no positive length; in memory %r (format %s)" % (thr, blanks, t["name"], w[0], w[1], w[2], src[:3], fmt), ("positive-length", fmt, blanks),
                              {"format": fmt, "blanks": blanks, "thr": thr, "zero_length_written": True,
                               "near_whole": bool(src) and all(abs(x - round(x)) <= 1e-14 * max(abs(x), 1.0) for e in src for x in e[:2] if abs(x - w[0]) <= 1e-13 * max(abs(x), 1.0))})
                return
    REC.held("write", ("positive-length", fmt, blanks, thr), "C04:near-whole-sliver-keeps-positive-length", case)


def _str_post(ctx):
    if ctx.pre[0] == "positive-length":
        return _positive_length(ctx)
    data, fmt, blanks, minT, maxT, thr = ctx.pre
    case = {"call": "write", "tg": snap_like(data), "format": fmt, "blanks": blanks, "minT": minT, "maxT": maxT, "thr": thr,
            "thr_named": ctx.arg(5, "minimumIntervalLength", _MISSING) is not _MISSING}
    sig = _sig(data, fmt, blanks, minT, maxT, thr)
    mech = {"format": fmt, "blanks": blanks, "thr": thr, "exc": type(ctx.exc).__name__ if ctx.exc else None}
    REC.outcome("write", ctx.exc)
    if must_raise(data, blanks, minT, maxT):
        lo_, hi_ = (data["min"] if minT is None else minT), (data["max"] if maxT is None else maxT)
        if any(t["t"] == "I" and t["entries"] and (0 < lo_ - t["entries"][0][0] <= 1e-13 * max(1.0, abs(lo_)) or 0 < t["entries"][-1][1] - hi_ <= 1e-13 * max(1.0, abs(hi_))) for t in data["tiers"]):
            REC.cls("C04:override-ulps-inside-data")
        if ctx.exc is None:
            REC.violation(PROP, "write", "getTextgridAsStr", case, "an entry (interval or point) lies outside the requested span [%r, %r] with blank filling on: the writer must raise, it returned a document" % (
                data["min"] if minT is None else minT, data["max"] if maxT is None else maxT), sig, mech)
        else:
            REC.held("write", sig, "C04:override-raises", case)
        return
    if ctx.exc is not None and core.is_praatio_error(ctx.exc) and not blanks and any(
            t["entries"] and (t["entries"][0][0] < (data["min"] if minT is None else minT) or t["entries"][-1][-2] > (data["max"] if maxT is None else maxT)) for t in data["tiers"]):
        # "if an entry would fall outside the requested span the save raises": demanded with blank filling on (D6); with blank filling
        # off the pinned tree writes the entries verbatim - a library that refuses there as well does what the sentence says
        REC.skip("write", "entry-outside-requested-span-refused-with-blank-filling-off")
        return
    if ctx.exc is not None:
        spec_none = blanks and thr is not None and any(
            t["t"] == "I" and spec_written([tuple(e) for e in t["entries"]], data["min"] if minT is None else minT, data["max"] if maxT is None else maxT, thr)[0] is None
            for t in data["tiers"])
        if spec_none:
            REC.skip("write", "no-long-element")
            return
        REC.violation(PROP, "write", "getTextgridAsStr", case, "writing raised %s: %s" % (type(ctx.exc).__name__, ctx.exc), sig, mech)
        return
    ok, msg, classes = judge_written(data, fmt, blanks, minT, maxT, thr, ctx.result)
    if ok is None:
        REC.skip("write", msg)
        return
    nontrivial = any("S" in x for p in sig[-1] for x in p) or minT is not None or maxT is not None
    if ok:
        REC.held("write", sig if nontrivial else None, classes, case)
    else:
        REC.violation(PROP, "write", "getTextgridAsStr", case, msg + " (format %s)" % fmt, sig, mech)


def _save_pre(ctx):
    tg = ctx.self_
    if not snap.is_tg(tg):
        return SKIP
    fn = ctx.arg(0, "fn")
    try:
        before = open(fn, "rb").read()
    except OSError:
        before = None
    # what the caller asked save for (the io layer may be handed something else): the file is judged against THIS
    req = None
    try:
        s = snap.tg_snap(tg)
        data = {"min": s["min"], "max": s["max"], "tiers": [dict(t, entries=[tuple(e) for e in t["entries"]]) for t in s["tiers"]]}
        args = (ctx.arg(1, "format"), ctx.arg(2, "includeBlankSpaces"), ctx.arg(3, "minTimestamp", None), ctx.arg(4, "maxTimestamp", None),
                ctx.arg(5, "minimumIntervalLength", 1e-8))
        if s["keys"] == [t["name"] for t in s["tiers"]] and not domain_ok(data, *args):
            req = (data,) + args
    except Exception:
        req = None
    try:
        mem = snap.tg_snap(tg)
    except Exception:
        mem = None
    return (fn, before, req, mem)


def _save_post(ctx):
    fn, before, req, mem = ctx.pre
    if mem is not None:
        try:
            now = snap.tg_snap(ctx.self_)
        except Exception:
            now = None
        if now != mem:
            # "saving adds only blanks" - to the file; the textgrid that was saved is not what gets filled
            REC.violation(PROP, "write.file", "save", {"call": "save-twice", "tg": mem, "args": snap.any_snap(list(ctx.args[1:])), "kwargs": snap.any_snap(ctx.kwargs)},
                          "save changed the textgrid in memory: %r -> %r" % (mem, now), ("save-mutates",), {"via": "save", "mutates": True})
            return
    if ctx.exc is None and req is not None and not must_raise(req[0], req[2], req[3], req[4]):
        data, fmt, blanks, minT, maxT, thr = req
        case = {"call": "save", "tg": snap_like(data), "format": fmt, "blanks": blanks, "minT": minT, "maxT": maxT, "thr": thr,
                "thr_named": ctx.arg(5, "minimumIntervalLength", _MISSING) is not _MISSING}
        sig = ("save",) + tuple(_sig(data, fmt, blanks, minT, maxT, thr))
        try:
            text = open(fn, "rb").read().decode("utf-8")
        except Exception as e:
            REC.violation(PROP, "write.file", "save", case, "the saved file cannot be read back: %s" % e, sig, {"format": fmt, "via": "save"})
            return
        ok, msg, classes = judge_written(data, fmt, blanks, minT, maxT, thr, text)
        if ok is None:
            REC.skip("write.file", msg)
        elif ok:
            zero = [w for w, v in (("min", minT), ("max", maxT)) if v is not None and v == 0]
            REC.held("write.file", sig, list(classes) + (["C04:save:zero-override"] if zero else []) + (["C04:save:override"] if minT is not None or maxT is not None else []), case)
        else:
            REC.violation(PROP, "write.file", "save", case, "file written by save(minTimestamp=%r, maxTimestamp=%r): %s (format %s)" % (minT, maxT, msg, fmt), sig,
                          {"format": fmt, "blanks": blanks, "thr": thr, "via": "save"})
        return
    if ctx.exc is None or before is None:
        return
    try:
        after = open(fn, "rb").read()
    except OSError:
        after = None
    case = {"call": "save-raising", "tg": snap.tg_snap(ctx.self_), "args": snap.any_snap(list(ctx.args[1:])), "kwargs": snap.any_snap(ctx.kwargs)}
    if after != before:
        REC.violation(PROP, "write.raising", "save", case, "save raised %s but the existing destination changed (%d -> %s bytes)" % (
            type(ctx.exc).__name__, len(before), None if after is None else len(after)), ("dest",), {"exc": type(ctx.exc).__name__})
    else:
        REC.held("write.raising", ("dest", type(ctx.exc).__name__), "C04:dest-untouched", case)


_installed = False


def install():
    global _installed
    if _installed:
        return
    _installed = True
    from praatio.data_classes.textgrid import Textgrid
    from praatio.utilities import textgrid_io

    core.attach(textgrid_io, "getTextgridAsStr", "write", _str_pre, _str_post, method=False)
    core.attach(Textgrid, "save", "write.raising", _save_pre, _save_post)


def assemble(start, segs):
    """segs: list of (length, label|None) -> entries, end.  Boundaries accumulate in floats."""
    ents = []
    cur = start
    for length, lab in segs:
        nxt = cur + length
        if lab is not None:
            ents.append((cur, nxt, lab))
        cur = nxt
    return ents, cur


def shapes(tier):
    """complete enumeration: position x chain x labelled/gap slivers x neighbours"""
    sl = (1e-12, 5e-9, 9.9e-9) if tier == "quick" else (1e-12, 1e-10, 5e-9, 9.9e-9)
    for pos in ("first", "middle", "last"):
        for n in (1, 2, 3):
            for labs in itertools.product((True, False), repeat=n):
                for nb in itertools.product((True, False), repeat=2):
                    for slen in sl:
                        yield pos, n, labs, nb, slen


def drive(tg, data, fmt, blanks, minT, maxT, thr, work, k):
    from praatio.data_classes.textgrid import _tgToDictionary
    from praatio.utilities import textgrid_io

    if k % 5 == 0 or must_raise(data, blanks, minT, maxT) or (k % 2 == 0 and (minT == 0 or maxT == 0)):
        fn = os.path.join(str(work), "c04_%d" % (k % 3))
        with open(fn, "w") as fd:
            fd.write("pre-existing %d\n" % k)
        if thr == 1e-8 and k % 2:  # the threshold the caller gets without naming one (documented: 1e-8)
            REC.cls("C04:default-threshold")
            call(tg.save, fn, fmt, blanks, minT, maxT, reportingMode=("silence", "warning", "error")[(k // 5) % 3])
        else:
            call(tg.save, fn, fmt, blanks, minT, maxT, thr, ("silence", "warning", "error")[(k // 5) % 3])
    elif thr == 1e-8 and k % 3 == 0:
        REC.cls("C04:default-threshold")
        call(textgrid_io.getTextgridAsStr, _tgToDictionary(tg), fmt, blanks, minT, maxT)
    else:
        call(textgrid_io.getTextgridAsStr, _tgToDictionary(tg), fmt, blanks, minT, maxT, thr)


def workload(tier, rng, shard, nshards, work):
    with contextlib.redirect_stdout(io.StringIO()):
        k = 0
        fmts_cycle = itertools.cycle(TC.FORMATS)
        for si, (pos, n, labs, nb, slen) in enumerate(shapes(tier)):
            if si % nshards != shard:
                continue
            sl = [(slen * (1 + 0.1 * j), "s%d" % j if lab else None) for j, lab in enumerate(labs)]
            left = (0.05 + 0.013 * n, "L" if nb[0] else None)
            right = (0.07, "R" if nb[1] else None)
            if pos == "first":
                segs = sl + [right, (1.0, "tail")]
            elif pos == "last":
                segs = [(0.3, "head"), left] + sl
            else:
                segs = [(0.3, "head"), left] + sl + [right, (0.21, "tail")]
            for start in (0.0, 0.37):
                ents, end = assemble(start, segs)
                if not ents:
                    continue
                lo = 0.0 if start == 0.0 or pos != "first" else start
                data = {"min": min(lo, start) if pos == "first" else 0.0, "max": end if pos == "last" else end + (0.0 if nb[1] else 0.0), "tiers": [
                    {"t": "I", "name": "t", "min": min(lo, start) if pos == "first" else 0.0, "max": end, "entries": ents},
                    {"t": "P", "name": "p", "min": min(lo, start) if pos == "first" else 0.0, "max": end, "entries": [(ents[0][0], "x"), (end, "")]}]}
                if si % 2:
                    data["tiers"].reverse()  # the point tier first
                try:
                    tg = TC.build_tg(data)
                except Exception:
                    continue
                thrs = (None, 1e-8, 1e-3) if tier == "quick" else THRESHOLDS
                for thr in thrs:
                    fmts = (next(fmts_cycle),) if tier == "quick" else TC.FORMATS
                    for fmt in fmts:
                        k += 1
                        drive(tg, data, fmt, True, None, None, thr, work, k)
                k += 1
                drive(tg, data, next(fmts_cycle), False, None, None, 1e-8, work, k)
        nrand = (3000 if tier == "quick" else 50000) // nshards
        for i in range(nrand):
            nseg = rng.randrange(1, 9)
            segs = []
            for _ in range(nseg):
                r = rng.random()
                length = rng.choice(SEG_LENGTHS[:8]) if r < 0.45 else rng.choice(SEG_LENGTHS[8:])
                segs.append((length, rng.choice(["a", "b", "c d", 'q"', "", "a", "b", "100% sure", "%d", "50%% creaky"]) if rng.random() < 0.65 else None))
            start = rng.choice([0.0, 0.0, 0.37, 1.0 / 3, 2.5, 3600.5, 86400.25, 100.0, 4096.0])  # also recordings whose time axis starts far from zero (the last two: on a whole second, where the text formats' number form has its near-integer rule)
            ents, end = assemble(start, segs)
            if not ents:
                continue
            tmax = end + rng.choice([0.0, 0.0, 5e-9, 2e-8, 0.5])
            tmin = rng.choice([0.0, start])
            data = {"min": tmin, "max": tmax, "tiers": [{"t": "I", "name": "r", "min": tmin, "max": tmax, "entries": ents}]}
            if rng.random() < 0.2:
                data["tiers"].append({"t": "I", "name": "unlabelled", "min": tmin, "max": tmax, "entries": []})  # filled with one blank in the FILE
            if rng.random() < 0.08:
                # a sibling tier that is a few nanoseconds longer: the file ends a sliver after this tier's own end
                longer = tmax + rng.choice([5e-9, 4e-9, 0.03])
                data["tiers"].append({"t": "I", "name": "longer", "min": tmin, "max": longer, "entries": [(tmin, longer, "whole")]})
                data["max"] = longer
                REC.cls("C04:file-ends-a-sliver-after-the-tier")
            if rng.random() < 0.3:
                # (a point tier stands anywhere among the interval tiers, also first)
                data["tiers"].insert(rng.randrange(len(data["tiers"]) + 1), {"t": "P", "name": "pp", "min": tmin, "max": tmax, "entries": [(start, "p"), (start + 3e-9, "q")] if start + 3e-9 <= tmax else [(start, "p")]})
            late = None
            if rng.random() < 0.15:
                # marks before the first / after the last interval: an override between the intervals and the outermost mark leaves every
                # interval (and the nearer marks) inside the requested span and one mark outside it
                late = (ents[0][0] / 2 if ents[0][0] > tmin else None, ents[-1][1] + 0.3)
                pts = [(ents[0][0], "in1"), ((ents[0][0] + ents[-1][1]) / 2, "in2"), (late[1], "after")] + ([(late[0], "before")] if late[0] is not None else [])
                tmax = max(tmax, late[1] + 0.2)
                for t in data["tiers"]:
                    t["max"] = tmax
                data["max"] = tmax
                data["tiers"].insert(rng.randrange(len(data["tiers"]) + 1), {"t": "P", "name": "marks", "min": tmin, "max": tmax, "entries": sorted(pts)})
            try:
                tg = TC.build_tg(data)
            except Exception:
                continue
            first, last = ents[0][0], ents[-1][1]
            for _j in range(3):
                k += 1
                thr = rng.choice(THRESHOLDS)
                blanks = rng.random() < 0.8
                r = rng.random()
                minT = maxT = None
                if r < 0.12:
                    maxT = tmax + rng.choice([0.25, 1.0, 4e-9, 0.05, (thr or 1e-8) * 0.4])  # (also: less than the threshold behind the tier's own end)
                elif r < 0.2:
                    maxT = tmax
                elif r < 0.3:
                    maxT = (first + last) / 2  # inside the data: must raise with blank filling on
                elif r < 0.38 and first > 0:
                    minT = first / 2
                elif r < 0.46 and first > 0:
                    minT = first
                elif r < 0.54:
                    minT = (first + last) / 2
                elif r < 0.6 and tmin > 0:
                    minT = 0.0
                elif r < 0.7:
                    import math

                    maxT = math.nextafter(last, 0) if rng.random() < 0.5 else last * (1 - 4e-15)  # a few ulps inside the data: must raise
                elif r < 0.78 and first > 0:
                    import math

                    minT = math.nextafter(first, math.inf) if rng.random() < 0.5 else first * (1 + 4e-15)
                if late is not None and _j < 2:
                    minT = maxT = None
                    if _j == 0 or late[0] is None:
                        maxT = rng.choice([last + 0.1, last + 0.3 - 1e-9, last])  # the last interval fits, the last mark does not
                    else:
                        minT = rng.choice([(late[0] + first) / 2, first])  # the first interval fits, the first mark does not
                    REC.cls("C04:override-cuts-off-a-point-only")
                elif rng.random() < 0.12:
                    # both ends of the file's span named in one call
                    minT = rng.choice([tmin, tmin - 0.5, 0.0 if tmin > 0 else tmin - 1.0, (first + tmin) / 2 if first > tmin else tmin])
                    maxT = rng.choice([tmax, tmax + 0.5, tmax + 2.0, (first + last) / 2])
                    REC.cls("C04:both-overrides")
                drive(tg, data, rng.choice(TC.FORMATS), blanks, minT, maxT, thr, work, k)


def replay(v, work):
    from praatio.data_classes.textgrid import _tgToDictionary
    from praatio.utilities import textgrid_io

    c = v["case"]
    with contextlib.redirect_stdout(io.StringIO()):
        with core.paused():
            tg = snap.build_tg(c["tg"])
        if c["call"] == "write":
            if c.get("thr_named", True):
                call(textgrid_io.getTextgridAsStr, _tgToDictionary(tg), c["format"], c["blanks"], c["minT"], c["maxT"], c["thr"])
            else:
                call(textgrid_io.getTextgridAsStr, _tgToDictionary(tg), c["format"], c["blanks"], c["minT"], c["maxT"])
        elif c["call"] == "save-twice":
            call(tg.save, os.path.join(str(work), "replay_dest"), *c["args"], **c["kwargs"])
        elif c["call"] == "save":
            if c.get("thr_named", True):
                call(tg.save, os.path.join(str(work), "replay_dest"), c["format"], c["blanks"], c["minT"], c["maxT"], c["thr"], "silence")
            else:
                call(tg.save, os.path.join(str(work), "replay_dest"), c["format"], c["blanks"], c["minT"], c["maxT"], reportingMode="silence")
        else:
            fn = os.path.join(str(work), "replay_dest")
            with open(fn, "w") as fd:
                fd.write("pre-existing\n")
            call(tg.save, fn, *c["args"], **c["kwargs"])


CLASSIFIERS = {}

"""C18 - zero-crossing search finds real crossings; splicing keeps audio and text in step."""
import contextlib
import io
import math

from vmon import core, snap
from vmon.core import REC, SKIP, StepBudgetExceeded
from models import wavmodel as W
from models import tiers as M
from workloads import gen
from checks.common import num, make_tier, ents_of

PROP = "C18"
NSHARDS = {"quick": 8, "thorough": 16}
TIMEOUT = {"quick": 900, "thorough": 5400}
RULE = (
    "case = one monitored findNearestZeroCrossing (with a logical iteration counter on the inner search step), "
    "praatio_scripts.tgBoundariesToZeroCrossings or audioSplice call; recordings of <=60 samples (random, all-positive, all-zero, "
    "sparse-zero, single-crossing, sine; widths 1/2/4) x targets on every sample position and at arbitrary reals x timeStep of "
    "{2, 3, 5, 10, 2.5, 7.3} samples and below two samples; for audioSplice random textgrids x insertion points x optional replaced "
    "region x alignToZeroCrossing. distinct = (operation, waveform class, width, step class, target position class, outcome kind); "
    "non-trivial = the recording has samples."
)
ASSUMPTIONS = [
    "termination is decided as bounded progress: at most 2*(ceil(duration/timeStep)+3) inner search steps per call (exceeding it aborts the call and is a violation; the wall-clock watchdog is only inconclusive) (D16)",
    "a spurious FindZeroCrossingError is recorded, not a violation: the statement constrains what is returned",
    "audioSplice: praatio errors are acceptable outcomes; entries that end before min(old, aligned) insertion point must be verbatim",
]
EXHAUSTIVE = {"quick": False, "thorough": False}
WAVEFORMS = ("random", "all-positive", "all-zero", "sparse-zero", "single-crossing", "sine")


def floors(tier):
    f = {"evals": {"zc": 20000, "zc.tg": 300, "splice": 300}, "classes": {}}
    for w in WAVEFORMS:
        f["classes"]["C18:wave:" + w] = 200
    for c in ("step-non-integer-samples", "step-integer-samples", "step-too-small", "target-at-0", "target-at-duration", "target-off-grid",
              "no-crossing-error", "returned-on-grid", "requery-after-in-place-edit", "splice:aligned", "splice:not-aligned", "splice:with-replaced-region"):
        f["classes"]["C18:" + c] = 50
    return f


_budget = {"active": False, "count": 0, "limit": 0}


def _iter_pre(ctx):
    if _budget["active"]:
        _budget["count"] += 1
        if _budget["count"] > _budget["limit"]:
            raise StepBudgetExceeded()
    return SKIP


def _raw_of(wav):
    """the bytes of the recording as they are now (in memory, or in the file a QueryWav reads)"""
    if hasattr(wav, "frames"):
        return bytes(wav.frames)
    smp = _samples_of(wav)
    return W.encode(smp, wav.sampleWidth) if smp is not None else None


def _samples_of(wav):
    if hasattr(wav, "frames") and len(wav.frames) > 40000:
        return None
    if hasattr(wav, "frames"):
        return W.decode(bytes(wav.frames), wav.sampleWidth)
    af = getattr(wav, "audiofile", None)  # a QueryWav: the recording stays in its file
    if af is not None:
        try:
            if af.getnframes() * af.getsampwidth() > 40000 or af.getnchannels() != 1:
                return None
            pos = af.tell()
            af.setpos(0)
            raw = af.readframes(af.getnframes())
            af.setpos(pos)
            return W.decode(raw, af.getsampwidth())
        except Exception:
            return None
    return None


def is_crossing(samples, k):
    if k < 0 or k >= len(samples):
        return False
    if samples[k] == 0:
        return True
    sg = lambda v: (v > 0) - (v < 0)
    return (k > 0 and sg(samples[k - 1]) != sg(samples[k])) or (k + 1 < len(samples) and sg(samples[k + 1]) != sg(samples[k]))


def _zc_pre(ctx):
    wav = ctx.self_
    t, step = ctx.arg(0, "targetTime"), ctx.arg(1, "timeStep", 0.002)
    samples = _samples_of(wav)
    if samples is None or not samples or not (num(t) and num(step)) or step < 0:
        return SKIP
    rate = wav.frameRate
    dur = len(samples) / rate
    if t < 0 or t > dur:
        REC.skip("zc", "target-outside-recording")
        return SKIP
    outer = not _budget["active"]
    if outer:
        _budget.update(active=True, count=0, limit=2 * (math.ceil(dur / step) + 3) if step > 0 else 8)  # (a step of 0 holds no sample at all: refused before any search)
    return (samples, rate, t, step, outer, _raw_of(wav))


def _zc_post(ctx):
    samples, rate, t, step, outer, frames = ctx.pre
    steps = _budget["count"]
    if outer:
        _budget["active"] = False
    n = len(samples)
    dur = n / rate
    wclass = getattr(ctx.self_, "_vmon_wave", "unknown")
    on_grid = W.on_grid(t, rate)
    sps = M.F(step) * rate
    step_int = abs(sps - round(sps)) <= M.F(1, 10 ** 9)
    classes = ["C18:wave:" + wclass, "C18:step-integer-samples" if step_int else "C18:step-non-integer-samples"]
    if t == 0:
        classes.append("C18:target-at-0")
    if t == dur:
        classes.append("C18:target-at-duration")
    if not on_grid:
        classes.append("C18:target-off-grid")
    log = getattr(ctx.self_, "_vmon_log", None)
    if log is not None and ctx.depth == 0:
        log["events"].append(["q", t, step])
    case = {"call": "zc", "width": ctx.self_.sampleWidth, "rate": rate, "samples": samples, "t": t, "step": step,
            "history": {"initial": log["initial"], "events": list(log["events"])} if log is not None and any(e[0] == "e" for e in log["events"]) else None}
    mech = {"op": "zc", "exc": type(ctx.exc).__name__ if ctx.exc else None, "step_integer": step_int}
    sig = ("zc", wclass, ctx.self_.sampleWidth, float(sps) if sps < 20 else 20, "0" if t == 0 else ("end" if t == dur else ("grid" if on_grid else "off")),
           type(ctx.exc).__name__ if ctx.exc else "ret")
    REC.outcome("zc", ctx.exc)
    if _raw_of(ctx.self_) != frames:
        REC.violation(PROP, "zc", "findNearestZeroCrossing", case, "the search changed the recording", sig, mech)
        return
    if isinstance(ctx.exc, StepBudgetExceeded):
        REC.violation(PROP, "zc", "findNearestZeroCrossing", case, "no result after %d inner search steps (bound 2*(ceil(%r/%r)+3) = %d): the search does not make bounded progress" % (
            steps, dur, step, _budget["limit"]), sig, mech)
        return
    if ctx.exc is not None:
        name = type(ctx.exc).__name__
        if name == "ArgumentError" and step * rate < 2:
            REC.held("zc", sig, classes + ["C18:step-too-small"], case)
        elif name == "FindZeroCrossingError":
            if n >= 4 and not any(samples) and step * rate >= 2 and step < dur:
                # D16 tolerates the error when the windows the search happens to look at hold no crossing although the recording has
                # one.  In digital silence every sample is zero - a crossing by itself - so there is no such window.
                REC.violation(PROP, "zc", "findNearestZeroCrossing", case, "raised FindZeroCrossingError in digital silence (every sample is 0, i.e. a crossing): %d samples" % n, sig, mech)
                return
            if any(is_crossing(samples, k) for k in range(n)):
                REC.note("spurious FindZeroCrossingError although the recording has a crossing (recorded, not a violation)")
            REC.held("zc", sig, classes + ["C18:no-crossing-error"], case)
        else:
            REC.violation(PROP, "zc", "findNearestZeroCrossing", case, "raised %s: %s (only ArgumentError for a step below two samples and FindZeroCrossingError are documented)" % (name, ctx.exc), sig, mech)
        return
    if step * rate < 2:
        REC.violation(PROP, "zc", "findNearestZeroCrossing", case, "timeStep %r holds fewer than two samples at %d Hz: ArgumentError expected, got %r" % (step, rate, ctx.result), sig, mech)
        return
    r = ctx.result
    if not num(r) or r < 0 or r > dur:
        REC.violation(PROP, "zc", "findNearestZeroCrossing", case, "returned %r, outside [0, %r]" % (r, dur), sig, mech)
        return
    if on_grid:
        x = r * rate
        k = round(x)
        if abs(x - k) > 1e-9 * max(1.0, abs(x)):
            REC.violation(PROP, "zc", "findNearestZeroCrossing", case, "target %r is on a sample position but the result %r is not (r*rate = %r)" % (t, r, x), sig, mech)
            return
        if not is_crossing(samples, k):
            REC.violation(PROP, "zc", "findNearestZeroCrossing", case, "returned %r = sample %d, which is neither zero nor differs in sign from a neighbour: %r" % (
                r, k, samples[max(0, k - 2):k + 3]), sig, mech)
            return
        classes.append("C18:returned-on-grid")
    REC.held("zc", sig, classes, case)


# ---------------- tgBoundariesToZeroCrossings ---------------------------------------
def _tgz_pre(ctx):
    tg, wav = ctx.arg(0, "tg"), ctx.arg(1, "wav")
    if not snap.is_tg(tg) or _samples_of(wav) is None:
        return SKIP
    s = snap.tg_snap(tg)
    if not s["tiers"] or not all(snap.wellformed_tier_snap(t) for t in s["tiers"]):
        return SKIP
    return (s, _samples_of(wav), wav.frameRate, ctx.arg(2, "adjustPointTiers", True), ctx.arg(3, "adjustIntervalTiers", True))


def _tgz_post(ctx):
    s, samples, rate, adjP, adjI = ctx.pre
    case = {"call": "tgz", "tg": s, "samples": samples, "rate": rate, "adjP": adjP, "adjI": adjI, "width": ctx.arg(1, "wav").sampleWidth}
    sig = ("tgz", adjP, adjI, tuple(t["t"] for t in s["tiers"]), type(ctx.exc).__name__ if ctx.exc else "ret")
    mech = {"op": "tgz", "exc": type(ctx.exc).__name__ if ctx.exc else None}
    REC.outcome("zc.tg", ctx.exc)
    if ctx.exc is not None:
        if core.is_praatio_error(ctx.exc):
            REC.held("zc.tg", sig, None, case)
        else:
            REC.violation(PROP, "zc.tg", "tgBoundariesToZeroCrossings", case, "raised %s: %s" % (type(ctx.exc).__name__, ctx.exc), sig, mech)
        return
    if not snap.is_tg(ctx.result):
        REC.violation(PROP, "zc.tg", "tgBoundariesToZeroCrossings", case, "returned %r" % (ctx.result,), sig, mech)
        return
    r = snap.tg_snap(ctx.result)
    if r["keys"] != s["keys"]:
        REC.violation(PROP, "zc.tg", "tgBoundariesToZeroCrossings", case, "tier order %r, expected %r" % (r["keys"], s["keys"]), sig, mech)
        return
    for ts, tr in zip(s["tiers"], r["tiers"]):
        adj = adjI if ts["t"] == "I" else adjP
        if not adj:
            if not snap.snap_equal(ts, tr):
                REC.violation(PROP, "zc.tg", "tgBoundariesToZeroCrossings", case, "tier %r was to be left alone but changed" % ts["name"], sig, mech)
                return
            continue
        if tr["t"] != ts["t"] or len(tr["entries"]) != len(ts["entries"]) or sorted(e[-1] for e in tr["entries"]) != sorted(e[-1] for e in ts["entries"]):
            REC.violation(PROP, "zc.tg", "tgBoundariesToZeroCrossings", case, "tier %r: entry count/labels changed: %r -> %r" % (ts["name"], ts["entries"], tr["entries"]), sig, mech)
            return
        if ts["t"] == "I" and [e[-1] for e in tr["entries"]] != [e[-1] for e in ts["entries"]]:
            REC.violation(PROP, "zc.tg", "tgBoundariesToZeroCrossings", case, "tier %r: label order changed" % ts["name"], sig, mech)
            return
        if not snap.wellformed_times(tr):
            # "keeping tier order ... (points that move past each other may swap places)": whatever moved, the tier that comes back is
            # a tier - its entries in time order
            REC.violation(PROP, "zc.tg", "tgBoundariesToZeroCrossings", case, "tier %r comes back ill-formed (entries out of time order, or overlapping): %r" % (ts["name"], tr["entries"]), sig, dict(mech, illformed_result=True))
            return
        old_on_grid = all(W.on_grid(v, rate) for e in ts["entries"] for v in e[:-1])
        if old_on_grid:
            for e in tr["entries"]:
                for v in e[:-1]:
                    x = v * rate
                    k = round(x)
                    if abs(x - k) > 1e-9 * max(1.0, abs(x)) or not is_crossing(samples, k):
                        REC.violation(PROP, "zc.tg", "tgBoundariesToZeroCrossings", case, "tier %r: new timestamp %r is not a zero crossing on a sample position" % (ts["name"], v), sig, mech)
                        return
    REC.held("zc.tg", sig, None, case)


# ---------------- audioSplice -----------------------------------------------------------
def _sp_pre(ctx):
    a, seg, tg = ctx.arg(0, "audioObj"), ctx.arg(1, "spliceSegment"), ctx.arg(2, "tg")
    tierName, label = ctx.arg(3, "tierName"), ctx.arg(4, "newLabel")
    start, stop, align = ctx.arg(5, "insertStart"), ctx.arg(6, "insertStop", None), ctx.arg(7, "alignToZeroCrossing", True)
    sa, ss = _samples_of(a), _samples_of(seg)
    if sa is None or ss is None or not snap.is_tg(tg):
        return SKIP
    s = snap.tg_snap(tg)
    if tierName not in s["keys"] or not all(snap.wellformed_tier_snap(t) for t in s["tiers"]):
        return SKIP
    tt = s["tiers"][s["keys"].index(tierName)]
    if tt["t"] != "I" or (align and any(e[-1] == label for e in tt["entries"])):
        # (a label the tier already uses is judged when the insertion point is known exactly, i.e. without zero-crossing alignment)
        REC.skip("splice", "label-not-fresh-or-point-tier")
        return SKIP
    dur = len(sa) / a.frameRate
    if abs(s["max"] - dur) > 1e-9 or not num(start) or not 0 <= start <= dur or (stop is not None and not (num(stop) and start < stop <= dur)):
        REC.skip("splice", "outside-domain")
        return SKIP
    return (sa, ss, a.frameRate, a.sampleWidth, s, tierName, label, start, stop, align)


def _sp_post(ctx):
    sa, ss, rate, width, s, tierName, label, start, stop, align = ctx.pre
    case = {"call": "splice", "audio": sa, "segment": ss, "rate": rate, "width": width, "tg": s, "tier": tierName, "label": label, "start": start, "stop": stop, "align": align}
    classes = ["C18:splice:aligned" if align else "C18:splice:not-aligned"]
    if stop is not None:
        classes.append("C18:splice:with-replaced-region")
    try:
        tg_now = snap.tg_snap(ctx.arg(2, "tg"))
    except Exception:
        tg_now = None
    if tg_now is not None and not snap.snap_equal(tg_now, s):
        # "returns audio and a textgrid": the textgrid that was passed in is the caller's, and stays as it was
        REC.violation(PROP, "splice", "audioSplice", case, "the textgrid passed in was changed by the call: %r -> %r" % (s, tg_now), ("splice", "arg-mutated"), {"op": "splice", "arg_mutated": True})
        return
    sig = ("splice", align, stop is not None, tuple(t["t"] for t in s["tiers"]), type(ctx.exc).__name__ if ctx.exc else "ret")
    mech = {"op": "splice", "exc": type(ctx.exc).__name__ if ctx.exc else None, "align": align}
    REC.outcome("splice", ctx.exc)
    if ctx.exc is not None:
        if core.is_praatio_error(ctx.exc):
            REC.held("splice", sig, classes, None)
        else:
            REC.violation(PROP, "splice", "audioSplice", case, "raised %s: %s" % (type(ctx.exc).__name__, ctx.exc), sig, mech)
        return
    try:
        wav2, tg2 = ctx.result
        sa2 = _samples_of(wav2)
        r = snap.tg_snap(tg2)
    except Exception:
        REC.violation(PROP, "splice", "audioSplice", case, "did not return (Wav, Textgrid): %r" % (ctx.result,), sig, mech)
        return
    if sa2 is None:
        REC.violation(PROP, "splice", "audioSplice", case, "returned audio no longer holds whole samples", sig, mech)
        return
    dur2 = len(sa2) / rate
    if abs(dur2 - r["max"]) > 1 / rate + 1e-9:
        REC.violation(PROP, "splice", "audioSplice", case, "audio lasts %r s but the textgrid ends at %r (more than one sample apart)" % (dur2, r["max"]), sig, mech)
        return
    if r["keys"] != s["keys"]:
        REC.violation(PROP, "splice", "audioSplice", case, "tier names %r, expected %r" % (r["keys"], s["keys"]), sig, mech)
        return
    if all(t["min"] == s["min"] and t["max"] == s["max"] for t in s["tiers"]):
        # "audio and a textgrid whose durations agree": the textgrid as a whole - if all its tiers ended with it before the splice,
        # they all end with it afterwards (a tier left at the old length no longer belongs to the recording)
        off = [(t["name"], t["max"]) for t in r["tiers"] if abs(t["max"] - r["max"]) > 1e-9 * max(1.0, abs(r["max"]))]
        if off:
            REC.violation(PROP, "splice", "audioSplice", case, "the textgrid ends at %r but tier(s) %r do not (all tiers ended with the textgrid before the splice)" % (r["max"], off), sig, dict(mech, tier_span=True))
            return
    tt = r["tiers"][r["keys"].index(tierName)]
    fresh = not any(e[-1] == label for e in s["tiers"][s["keys"].index(tierName)]["entries"])
    new = [e for e in tt["entries"] if e[-1] == label]
    if not fresh:
        # the tier already uses this label (a repeated word): the new interval is the one labelled so that starts where the audio went in
        classes.append("C18:splice:label-already-in-use")
        new = [e for e in new if abs(e[0] - start) <= 1e-9]
        if len(new) != 1:
            REC.violation(PROP, "splice", "audioSplice", case, "%d intervals labelled %r start at the insertion point %r on tier %r, expected exactly one new interval covering the inserted audio: %r" % (
                len(new), label, start, tierName, tt["entries"]), sig, mech)
            return
    if len(new) != 1:
        REC.violation(PROP, "splice", "audioSplice", case, "%d intervals labelled %r on tier %r, expected exactly one" % (len(new), label, tierName), sig, mech)
        return
    nlen = new[0][1] - new[0][0]
    if not align:
        i0 = W.index_at(start, rate)
        i1 = W.index_at(stop, rate) if stop is not None else None
        if i0 is not None and (stop is None or i1 is not None):
            deleted = (i1 - i0) if stop is not None else 0
            if len(sa2) != len(sa) + len(ss) - deleted:
                REC.violation(PROP, "splice", "audioSplice", case, "result has %d samples, expected %d + %d - %d" % (len(sa2), len(sa), len(ss), deleted), sig, mech)
                return
            at = i1 if stop is not None else i0
            exp = sa[:i0] + (ss if stop is not None else []) + ([] if stop is not None else [])
            exp_audio = (sa[:at] + ss + sa[at:])
            if stop is not None:
                exp_audio = exp_audio[:i0] + exp_audio[i1:]
            if sa2 != exp_audio:
                REC.violation(PROP, "splice", "audioSplice", case, "spliced audio differs from original[:start] + segment + original[stop:]", sig, mech)
                return
        if abs(nlen - len(ss) / rate) > 1e-9 + 1 / rate * 1e-6:
            REC.violation(PROP, "splice", "audioSplice", case, "the new interval lasts %r s, the inserted audio %r s" % (nlen, len(ss) / rate), sig, mech)
            return
    elif not (0 < nlen <= len(ss) / rate + 1e-9):
        REC.violation(PROP, "splice", "audioSplice", case, "the new interval lasts %r s, the splice segment %r s" % (nlen, len(ss) / rate), sig, mech)
        return
    elif stop is None and fresh:
        # with alignment and nothing replaced: audio and text stay in step - the samples before the new interval are the recording's
        # first samples, the samples after it the rest of the recording, and what lies between lasts as long as the new interval
        i0, i1 = round(new[0][0] * rate), round(new[0][1] * rate)
        if abs(new[0][0] * rate - i0) < 1e-6 and abs(new[0][1] * rate - i1) < 1e-6 and 0 <= i0 <= i1 <= len(sa2):
            if len(sa2) - (i1 - i0) != len(sa) or sa2[:i0] != sa[:i0] or sa2[i1:] != sa[i0:]:
                REC.violation(PROP, "splice", "audioSplice", case, "the new interval [%r, %r] does not cover the inserted audio: around it the result holds %d + %d samples of the recording's %d, or other samples" % (
                    new[0][0], new[0][1], i0, len(sa2) - i1, len(sa)), sig, mech)
                return
            classes.append("C18:splice:aligned-audio-in-step")
        # a boundary that lay exactly on the requested insertion point moves with it: the entry that ended there ends where the new
        # audio begins (it is neither cut short of it nor stretched over it)
        for ts, tr in zip(s["tiers"], r["tiers"]):
            if ts["t"] != "I":
                continue
            for idx, e in enumerate(ts["entries"]):
                if e[1] == start and idx < len(tr["entries"]) and tr["entries"][idx][-1] == e[-1]:
                    classes.append("C18:splice:aligned:boundary-on-the-insertion-point")
                    if abs(tr["entries"][idx][1] - new[0][0]) > 1e-9:
                        REC.violation(PROP, "splice", "audioSplice", case, "tier %r: the entry %r ended on the insertion point; it now ends at %r while the inserted audio begins at %r" % (
                            ts["name"], e, tr["entries"][idx][1], new[0][0]), sig, mech)
                        return
    for ts, tr in zip(s["tiers"], r["tiers"]):
        before = [tuple(e) for e in ts["entries"] if e[-2] < start - (0 if not align else 1e18)] if not align else []
        if not align:
            got_before = [tuple(e) for e in tr["entries"][:len(before)]]
            if got_before != before:
                REC.violation(PROP, "splice", "audioSplice", case, "tier %r: entries that ended before the insertion point changed: %r -> %r" % (ts["name"], before, got_before), sig, mech)
                return
        if align and stop is None:
            # with alignment the insertion point moves to a zero crossing, so "before" and "later" are known only afterwards; but
            # nothing is replaced: every entry of every tier is either before or later, and both kinds keep their label and order
            src_labels = [e[-1] for e in ts["entries"]]
            got_labels = [e[-1] for e in tr["entries"]]
            if ts["name"] == tierName:
                got_labels = [l for l in got_labels if l != label] if label not in src_labels else got_labels
            if ts["t"] == "P":
                src_labels, got_labels = sorted(src_labels), sorted(got_labels)  # (a point moved onto the crossing may pass another one)
            if (got_labels != src_labels) if ts["name"] != tierName or label not in src_labels else (len(got_labels) != len(src_labels) + 1):
                REC.violation(PROP, "splice", "audioSplice", case, "tier %r: labels %r after an insertion that replaces nothing, the source had %r (every entry keeps its label)" % (ts["name"], [e[-1] for e in tr["entries"]], src_labels), sig, mech)
                return
        hi = stop if stop is not None else start
        # points exactly on the edge of a replaced region are erased with it (C07: a <= t <= b)
        later = [e[-1] for e in ts["entries"] if (e[0] >= hi if ts["t"] == "I" else e[0] > hi) and e[-1] != label] if not align else []
        if later:
            got_later = [e[-1] for e in tr["entries"] if e[-1] != label][-len(later):]
            if got_later != later:
                REC.violation(PROP, "splice", "audioSplice", case, "tier %r: labels of later entries %r, expected %r" % (ts["name"], got_later, later), sig, mech)
                return
    REC.held("splice", sig, classes, case)


_installed = False


def install():
    global _installed
    if _installed:
        return
    _installed = True
    from praatio import audio, praatio_scripts

    core.attach(audio.AbstractWav, "_iterZeroCrossings", "zc.iter", _iter_pre, None)
    core.attach(audio.AbstractWav, "findNearestZeroCrossing", "zc", _zc_pre, _zc_post)
    core.attach(praatio_scripts, "tgBoundariesToZeroCrossings", "zc.tg", _tgz_pre, _tgz_post, method=False)
    core.attach(praatio_scripts, "audioSplice", "splice", _sp_pre, _sp_post, method=False)


def waveform(rng, kind, n, width):
    lim = 2 ** (8 * width - 1) - 1
    if kind == "random":
        return [rng.randrange(-lim, lim + 1) for _ in range(n)]
    if kind == "all-positive":
        return [rng.randrange(1, lim + 1) for _ in range(n)]
    if kind == "all-zero":
        return [0] * n
    if kind == "sparse-zero":
        s = [rng.randrange(1, lim + 1) for _ in range(n)]
        for _ in range(max(1, n // 15)):
            s[rng.randrange(n)] = 0
        return s
    if kind == "single-crossing":
        k = rng.randrange(1, max(2, n))
        return [rng.randrange(1, lim + 1) if i < k else -rng.randrange(1, lim + 1) for i in range(n)]
    per = rng.choice([7, 11, 16.5, 23])
    return [round(lim * 0.9 * math.sin(2 * math.pi * i / per + 0.3)) for i in range(n)]


def mk_wav(rng, kind=None, n=None, width=None, rate=None):
    from praatio import audio

    kind = kind or rng.choice(WAVEFORMS)
    width = width or rng.choice((1, 2, 4))
    rate = rate or rng.choice((8, 100, 1000, 8000, 44100))
    n = n or rng.randrange(2, 61)
    samples = waveform(rng, kind, n, width)
    wav = audio.Wav(W.encode(samples, width), [1, width, rate, n, "NONE", "not compressed"])
    wav._vmon_wave = kind
    return wav, samples, rate, n


_g = [0]


def guarded(fn, *a, **kw):
    _g[0] += 1
    if _g[0] % 7 == 0 and a and not kw:
        from checks.common import _drop_defaults

        a = _drop_defaults(fn, a)  # the caller who leaves an option out gets the documented default
    try:
        return fn(*a, **kw)
    except Exception:
        return None
    except StepBudgetExceeded:
        _budget["active"] = False
        return None


def workload(tier, rng, shard, nshards, work):
    with contextlib.redirect_stdout(io.StringIO()):
        _workload(tier, rng, shard, nshards, work)


def _workload(tier, rng, shard, nshards, work=None):
    from praatio import praatio_scripts
    from praatio.data_classes.textgrid import Textgrid

    # a few seconds of audio whose only crossing (if any) lies thousands of search steps away from the target
    from praatio import audio

    for far in range(2 if tier == "quick" else 6):
        width, rate, n = rng.choice((2, 4)), 1000, rng.randrange(2500, 4000)
        samples = [rng.randrange(1, 2000) for _ in range(n)]
        if far % 2:
            x = rng.randrange(n - 300, n - 5)
            samples[x:] = [-v for v in samples[x:]]  # one crossing near the end
        wav = audio.Wav(W.encode(samples, width), [1, width, rate, n, "NONE", "not compressed"])
        wav._vmon_wave = "long-same-sign" if not far % 2 else "long-single-far-crossing"
        REC.cls("C18:crossing-thousands-of-steps-away")
        guarded(wav.findNearestZeroCrossing, rng.randrange(0, 200) / rate, 0.002)
        guarded(wav.findNearestZeroCrossing, rng.randrange(0, 200) / rate)
    # search windows of more than a thousand samples (a coarse step on a high-rate recording) over audio with a DC offset: exact
    # zeros are rare, the only one may lie anywhere in the window
    for wide in range(3 if tier == "quick" else 12):
        width, rate, n = rng.choice((2, 4)), rng.choice((8000, 44100)), rng.randrange(3000, 6000)
        samples = [rng.randrange(50, 2000) for _ in range(n)]
        for _z in range(rng.randrange(1, 4)):
            samples[rng.randrange(0, n)] = 0
        wav = audio.Wav(W.encode(samples, width), [1, width, rate, n, "NONE", "not compressed"])
        wav._vmon_wave = "long-dc-offset-sparse-zero"
        REC.cls("C18:window-of-more-than-1024-samples")
        for _q in range(6):
            guarded(wav.findNearestZeroCrossing, rng.randrange(0, n + 1) / rate, rng.choice([1100, 1500, 2047, 2500]) / rate)
    nw = (900 if tier == "quick" else 30000) // nshards
    for k in range(nw):
        wav, samples, rate, n = mk_wav(rng, WAVEFORMS[k % len(WAVEFORMS)])
        steps = [2 / rate, 3 / rate, 5 / rate, 10 / rate, 2.5 / rate, 7.3 / rate]
        for i in range(0, n + 1):
            guarded(wav.findNearestZeroCrossing, i / rate, rng.choice(steps))
        for _ in range(4):
            guarded(wav.findNearestZeroCrossing, rng.uniform(0, n / rate), rng.choice(steps))
        guarded(wav.findNearestZeroCrossing, rng.randrange(0, n + 1) / rate, rng.choice([1 / rate, 1.5 / rate, 0.5 / rate, 0, 0.0]))
        if work is not None and k % 3 == 0:
            # the same recording queried through its file (QueryWav never loads it): same questions, same kind of answers
            import os

            qfn = os.path.join(str(work), "zc_query.wav")
            with core.paused():
                wav.save(qfn)
            q = audio.QueryWav(qfn)
            q._vmon_wave = wav._vmon_wave
            REC.cls("C18:file-backed-recording")
            for i in range(0, n + 1, max(1, n // 12)):
                guarded(q.findNearestZeroCrossing, i / rate, rng.choice(steps))
            guarded(q.findNearestZeroCrossing, rng.uniform(0, n / rate), rng.choice(steps))
            q.audiofile.close()
        # histories on ONE object: query, edit the recording in place without changing its length, ask the same question again
        wav._vmon_log = {"initial": list(samples), "events": []}
        for _h in range(3):
            t = rng.randrange(0, n + 1) / rate
            st = rng.choice(steps)
            r1 = guarded(wav.findNearestZeroCrossing, t, st)
            i0 = rng.randrange(0, n)
            i1 = min(n, i0 + rng.randrange(1, 12))
            if r1 is not None and rng.random() < 0.6:
                k = min(n - 1, max(0, round(r1 * rate)))
                i0, i1 = max(0, k - 2), min(n, k + 3)
            lim = 2 ** (8 * wav.sampleWidth - 1) - 1
            new = [rng.randrange(1, lim + 1) for _ in range(i1 - i0)]
            wav._vmon_log["events"].append(["e", i0, i1, new])
            with core.paused():
                wav.replaceSegment(i0 / rate, i1 / rate, W.encode(new, wav.sampleWidth))
            REC.cls("C18:requery-after-in-place-edit")
            guarded(wav.findNearestZeroCrossing, t, st)
    # the nearest crossing lies behind the next (short) entry: aligning the insertion point drags a boundary across that entry - refused
    # (a praatio error) or done without losing it
    for _far in range(3 if tier == "quick" else 20):
        rate, n = 1000, rng.randrange(900, 1100)
        cross = rng.randrange(590, 640)
        samples = [rng.randrange(200, 2000) for _ in range(cross)] + [-rng.randrange(200, 2000) for _ in range(n - cross)]
        wav = audio.Wav(W.encode(samples, 2), [1, 2, rate, n, "NONE", "not compressed"])
        wav._vmon_wave = "single-crossing-behind-the-next-entry"
        a_end = rng.choice([0.5, 0.48, 0.52])
        words = [(0.2, a_end, "a"), (a_end + 0.05, a_end + 0.08, "b"), (0.7, 0.9, "c")]
        tg = Textgrid()
        tg.addTier(make_tier("I", "words", words, 0.0, n / rate), reportingMode="silence")
        tg.addTier(make_tier("P", "marks", [(a_end, "m"), (0.8, "m2")], 0.0, n / rate), reportingMode="silence")
        seg, _, _, _ = mk_wav(rng, "sine", n=rng.randrange(20, 60), width=2, rate=rate)
        REC.cls("C18:splice:crossing-behind-the-next-entry")
        guarded(praatio_scripts.audioSplice, wav.new(), seg, tg, "words", "NEW", a_end, None, True)
        guarded(praatio_scripts.audioSplice, wav.new(), seg, tg, "words", "NEW", 0.2, a_end, True)
    nt = (1200 if tier == "quick" else 16000) // nshards
    for k in range(nt):
        rate = rng.choice((1000, 8000, 16000))
        wav, samples, rate, n = mk_wav(rng, rng.choice(("random", "sine", "sparse-zero", "single-crossing", "all-positive")), n=rng.randrange(40, 240), width=rng.choice((2, 4)), rate=rate)
        dur = n / rate
        tg = Textgrid()
        pts = sorted(set(rng.sample(range(0, n + 1), min(n + 1, rng.randrange(2, 8)))))
        ents = []
        i = 0
        while i + 1 < len(pts):
            # (a tier read with includeEmptyIntervals=True also stores its unlabelled stretches as entries)
            ents.append((pts[i] / rate, pts[i + 1] / rate, "" if rng.random() < 0.2 else "e%d" % len(ents)))
            i += rng.choice((1, 2))
        if k % 4 == 3 and ents and ents[-1][1] < dur:
            # the textgrid covers the recording, every tier ends with its last entry (tiers built from their entries only)
            tg = Textgrid(0.0, dur)
            tg.addTier(make_tier("I", "words", ents, 0.0, ents[-1][1]), reportingMode="silence")
            REC.cls("C18:textgrid-longer-than-its-tiers")
        else:
            tg.addTier(make_tier("I", "words", ents, 0.0, dur), reportingMode="silence")
        if k % 3 == 0:
            # marks on neighbouring samples (a burst, a click train): each is moved on its own, so two of them can end up in reverse order
            p0 = rng.randrange(0, max(1, n - 6))
            mpos = sorted(set([p0, p0 + 1] + ([p0 + 2] if rng.random() < 0.5 else []) + rng.sample(range(0, n + 1), rng.randrange(0, 3))))
            REC.cls("C18:points-on-neighbouring-samples")
        else:
            mpos = sorted(rng.sample(range(0, n + 1), rng.randrange(0, 6)))
        marks = [(p / rate, rng.choice(["m", "m", "n"]) if k % 2 else "m%d" % j) for j, p in enumerate(mpos)]
        tg.addTier(make_tier("P", "marks", marks, 0.0, dur if not (k % 4 == 3 and marks and tg.getTier("words").maxTimestamp < dur) else max(marks[-1][0], tg.getTier("words").maxTimestamp)), reportingMode="silence")
        guarded(praatio_scripts.tgBoundariesToZeroCrossings, tg.new(), wav, rng.random() < 0.8, rng.random() < 0.8)
        if work is not None and k % 4 == 1:
            import os

            qfn = os.path.join(str(work), "tgz_query.wav")
            with core.paused():
                wav.save(qfn)
            q = audio.QueryWav(qfn)  # the recording stays in its file
            guarded(praatio_scripts.tgBoundariesToZeroCrossings, tg.new(), q, rng.random() < 0.8, rng.random() < 0.8)
            q.audiofile.close()
        seg, _, _, _ = mk_wav(rng, rng.choice(("sine", "random", "sparse-zero")), n=rng.randrange(8, 60), width=wav.sampleWidth, rate=rate)
        start = rng.choice([0.0, dur, rng.randrange(0, n + 1) / rate, rng.choice(pts) / rate])
        stop = None
        if rng.random() < 0.4 and start < dur:
            stop = min(dur, start + rng.randrange(1, 30) / rate)
            if not stop > start:
                stop = None
        target = wav.new()
        if work is not None and k % 5 == 2:
            # one of the two recordings comes from a file (Wav.open), the other was built in memory
            import os

            fnw = os.path.join(str(work), "splice_part.wav")
            if k % 2:
                seg.save(fnw)
                seg = audio.Wav.open(fnw)
            else:
                target.save(fnw)
                target = audio.Wav.open(fnw)
            REC.cls("C18:splice:file-and-memory-recordings")
            # where a recording comes from does not matter: the same splice with both recordings built in memory must end the same way
            align = rng.random() < 0.5
            mem_t = audio.Wav(bytes(target.frames), [1, target.sampleWidth, target.frameRate, len(target.frames) // target.sampleWidth, "NONE", "not compressed"])
            mem_s = audio.Wav(bytes(seg.frames), [1, seg.sampleWidth, seg.frameRate, len(seg.frames) // seg.sampleWidth, "NONE", "not compressed"])
            outs = []
            for a_, s_ in ((mem_t, mem_s), (target, seg)):
                # (monitors stay on: the step budget of the zero-crossing search is what ends a search that would never end)
                try:
                    o = praatio_scripts.audioSplice(a_, s_, tg.new(), "words", "SPLICE", start, stop, align)
                    outs.append(("returned", bytes(o[0].frames), snap.tg_snap(o[1])))
                except Exception as e:
                    outs.append(("raised", type(e).__name__, None))
                except StepBudgetExceeded:
                    _budget["active"] = False
                    outs.append(("raised", "StepBudgetExceeded", None))
            if outs[0] != outs[1]:
                REC.violation(PROP, "splice", "audioSplice", {"call": "splice-origin", "width": target.sampleWidth, "rate": target.frameRate, "samples": W.decode(bytes(mem_t.frames), target.sampleWidth),
                                                                "seg": W.decode(bytes(mem_s.frames), seg.sampleWidth), "tg": snap.tg_snap(tg), "start": start, "stop": stop, "align": align, "file_is_segment": bool(k % 2)},
                              "the same splice %s with both recordings built in memory but %s when one of them was opened from a file" % (
                                  outs[0][0] + (" " + outs[0][1] if outs[0][0] == "raised" else ""), outs[1][0] + (" " + outs[1][1] if outs[1][0] == "raised" else " something else")),
                              ("splice-origin",), {"op": "splice-origin"})
            else:
                REC.held("splice", ("splice-origin", outs[0][0]), None, None)
        lab = "SPLICE"
        if ents and rng.random() < 0.25:
            lab = rng.choice([e[2] for e in ents if e[2]] or ["SPLICE"])  # a word the tier already holds (said again)
        if ents and rng.random() < 0.12:
            # the end of a word is re-recorded: the replaced stretch starts inside an entry and ends exactly where that entry ends,
            # and the new interval carries the same label
            e = rng.choice(ents)
            i0, i1 = round(e[0] * rate), round(e[1] * rate)
            if e[2] and i1 - i0 >= 2:
                start, stop, lab = rng.randrange(i0 + 1, i1) / rate, e[1], e[2]
                REC.cls("C18:splice:replaces-the-end-of-a-same-labelled-entry")
                guarded(praatio_scripts.audioSplice, target, seg, tg, "words", lab, start, stop, False)
                target = wav.new()
        if k % 7 == 3:
            # the segment is a stretch of the recording itself - all of it, as it happens (said twice)
            seg = target.getSubwav(0.0, len(target.frames) // target.sampleWidth / rate)
            REC.cls("C18:splice:segment-is-the-whole-recording-via-getSubwav")
        out = guarded(praatio_scripts.audioSplice, target, seg, tg, "words", lab, start, stop, rng.random() < 0.5)
        if isinstance(out, tuple) and len(out) == 2 and k % 3 == 0:
            # a second take: the spliced recording is spliced again, the replaced stretch reaching into what the first splice added
            # (beyond the length the recording had to begin with)
            wav2, tg2 = out
            n2 = len(wav2.frames) // wav2.sampleWidth
            if n2 > n + 2:
                i0 = rng.randrange(max(0, n - 3), n2 - 1)
                i1 = rng.randrange(i0 + 1, n2 + 1)
                REC.cls("C18:splice:second-splice-into-the-lengthened-recording")
                guarded(praatio_scripts.audioSplice, wav2, seg, tg2, "words", "SPLICE2", i0 / rate, i1 / rate, False)


def replay(v, work):
    from praatio import audio, praatio_scripts

    c = v["case"]
    if c["call"] == "splice-origin":
        import os

        with contextlib.redirect_stdout(io.StringIO()):
            mk = lambda smp: audio.Wav(W.encode(smp, c["width"]), [1, c["width"], c["rate"], len(smp), "NONE", "not compressed"])
            outs = []
            for from_file in (False, True):
                a_, s_ = mk(c["samples"]), mk(c["seg"])
                if from_file:
                    fnw = os.path.join(str(work), "splice_part.wav")
                    if c["file_is_segment"]:
                        s_.save(fnw)
                        s_ = audio.Wav.open(fnw)
                    else:
                        a_.save(fnw)
                        a_ = audio.Wav.open(fnw)
                try:
                    with core.paused():
                        tg_ = snap.build_tg(c["tg"])
                    o = praatio_scripts.audioSplice(a_, s_, tg_, "words", "SPLICE", c["start"], c["stop"], c["align"])
                    outs.append(("returned", bytes(o[0].frames), snap.tg_snap(o[1])))
                except Exception as e:
                    outs.append(("raised", type(e).__name__, None))
                except StepBudgetExceeded:
                    _budget["active"] = False
                    outs.append(("raised", "StepBudgetExceeded", None))
            if outs[0] != outs[1]:
                REC.violation(PROP, "splice", "audioSplice", c, "the same splice ends differently when one recording was opened from a file (%s vs %s)" % (outs[0][:2] if outs[0][0] == "raised" else "returned", outs[1][:2] if outs[1][0] == "raised" else "returned"), ("splice-origin",), {"op": "splice-origin"})
            else:
                REC.held("splice", ("splice-origin",), None, None)
        return
    with contextlib.redirect_stdout(io.StringIO()):
        if c["call"] == "zc":
            h = c.get("history")
            if h:  # the recorded history of one object: queries interleaved with equal-length in-place edits
                wav = audio.Wav(W.encode(h["initial"], c["width"]), [1, c["width"], c["rate"], len(h["initial"]), "NONE", "not compressed"])
                for ev in h["events"]:
                    if ev[0] == "q":
                        guarded(wav.findNearestZeroCrossing, ev[1], ev[2])
                    else:
                        with core.paused():
                            wav.replaceSegment(ev[1] / c["rate"], ev[2] / c["rate"], W.encode(ev[3], c["width"]))
            else:
                wav = audio.Wav(W.encode(c["samples"], c["width"]), [1, c["width"], c["rate"], len(c["samples"]), "NONE", "not compressed"])
                guarded(wav.findNearestZeroCrossing, c["t"], c["step"])
        elif c["call"] == "tgz":
            wav = audio.Wav(W.encode(c["samples"], c["width"]), [1, c["width"], c["rate"], len(c["samples"]), "NONE", "not compressed"])
            with core.paused():
                tg = snap.build_tg(c["tg"])
            guarded(praatio_scripts.tgBoundariesToZeroCrossings, tg, wav, c["adjP"], c["adjI"])
        else:
            a = audio.Wav(W.encode(c["audio"], c["width"]), [1, c["width"], c["rate"], len(c["audio"]), "NONE", "not compressed"])
            sgm = audio.Wav(W.encode(c["segment"], c["width"]), [1, c["width"], c["rate"], len(c["segment"]), "NONE", "not compressed"])
            with core.paused():
                tg = snap.build_tg(c["tg"])
            guarded(praatio_scripts.audioSplice, a, sgm, tg, c["tier"], c["label"], c["start"], c["stop"], c["align"])


CLASSIFIERS = {}

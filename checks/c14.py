"""C14 - boundary adjusters move times only as far as allowed and keep labels."""
import contextlib
import io
import math

from vmon import core, snap
from vmon.core import REC, SKIP
from models import tiers as M
from workloads import gen
from checks.common import num, call, ents_of, desc, make_tier, receiver_changed

PROP = "C14"
NSHARDS = {"quick": 8, "thorough": 16}
TIMEOUT = {"quick": 600, "thorough": 3600}
F = M.F
RULE = (
    "case = one monitored dejitter (IntervalTier/PointTier), alignBoundariesAcrossTiers or morph call; dejitter cases are built "
    "so that each timestamp has a reference timestamp clearly inside, exactly at, just outside maxDifference, two equidistant "
    "candidates, or nothing in range, incl. adjustments that collapse or cross intervals; morph cases are pairs with equal and "
    "unequal entry counts x label filters. distinct = (operation, kinds, per-timestamp distance class vector, maxDifference); "
    "non-trivial = tier and reference both have entries."
)
ASSUMPTIONS = [
    "nearest reference: ties may go either way; distances within a relative 1e-12 band of maxDifference may go either way (D12)",
    "a praatio error is accepted iff some allowed adjustment would collapse or cross intervals; the reference-spacing guard may fire iff two consecutive reference timestamps are closer than maxDifference",
    "morph durations/gaps compared within 4*n ulp of the largest timestamp",
]
EXHAUSTIVE = {"quick": False, "thorough": False}
BAND = F(1, 10 ** 12)


def floors(tier):
    return {
        "evals": {"dejitter.interval": 3000, "dejitter.point": 1500, "align": 500, "morph": 2000},
        "classes": {"C14:exactly-at-D": 200, "C14:equidistant": 200, "C14:collapse-or-cross": 100, "C14:none-in-range": 300,
                    "C14:inside": 1000, "C14:just-outside": 300, "C14:align:guard-fired": 50, "C14:align:reference-untouched": 300,
                    "C14:morph:filter": 300, "C14:morph:count-mismatch": 100, "C14:morph:empty": 20, "C14:empty-reference-raises": 10, "C14:ref-is-point-tier": 300,
                    "C14:ref-is-interval-tier": 300, "C14:reference-edited-between-calls": 200},
    }


def allowed(t, refs, D):
    """-> (set of allowed result values, class)"""
    ft = F(t)
    dmin = min(abs(ft - F(r)) for r in refs)
    # "nearest" is decided in float arithmetic by any implementation: candidates whose distance differs from the
    # minimum by no more than rounding noise (4 ulp of the operands) are all acceptable
    tol = F(math.ulp(max(abs(t), max(abs(r) for r in refs), 1e-300))) * 4
    cands = [r for r in refs if abs(ft - F(r)) <= dmin + tol]
    fD = F(D)
    if dmin < fD * (1 - BAND):
        cls = "equidistant" if len(cands) > 1 else "inside"
        return set(cands), cls
    if dmin > fD * (1 + BAND):
        return {t}, ("none-in-range" if dmin > 4 * fD else "just-outside")
    return set(cands) | {t}, "exactly-at-D"


def timestamps_of(s):
    ts = set()
    for e in s["entries"]:
        ts.add(e[0])
        if s["t"] == "I":
            ts.add(e[1])
    return sorted(ts)


def judge_dejitter(s, refs, D, result, exc):
    """-> (ok, msg, classes)"""
    ents = ents_of(s)
    kind = s["t"]
    A = []
    classes = set()
    for e in ents:
        row = []
        for v in e[:-1]:
            al, c = allowed(v, refs, D)
            row.append(al)
            classes.add("C14:" + c)
        A.append(row)
    bad_possible = False
    if kind == "I":
        for i, row in enumerate(A):
            if any(x >= y for x in row[0] for y in row[1]):
                bad_possible = True
            if i + 1 < len(A) and any(x > y for x in row[1] for y in A[i + 1][0]):
                bad_possible = True
    if bad_possible:
        classes.add("C14:collapse-or-cross")
    classes = sorted(classes)
    if exc is not None:
        if core.is_praatio_error(exc) and bad_possible:
            return True, "", classes
        return False, "dejitter raised %s: %s although %s" % (
            type(exc).__name__, exc, "every allowed adjustment is well-formed" if not bad_possible else "a praatio error was expected"), classes
    if not snap.is_tier(result):
        return False, "returned %r" % (result,), classes
    r = snap.tier_snap(result)
    obs = ents_of(r)
    if r["t"] != kind or r["name"] != s["name"]:
        return False, "tier kind/name changed", classes
    if len(obs) != len(ents):
        return False, "entry count %d, expected %d" % (len(obs), len(ents)), classes
    if kind == "I":
        for i, (o, e, row) in enumerate(zip(obs, ents, A)):
            if o[2] != e[2]:
                return False, "entry %d label %r, expected %r (order and labels must not change)" % (i, o[2], e[2]), classes
            for j in (0, 1):
                if o[j] not in row[j]:
                    return False, "entry %d field %d moved %r -> %r; allowed %r (maxDifference %r, reference %r)" % (i, j, e[j], o[j], sorted(row[j]), D, refs), classes
        for i, o in enumerate(obs):
            if not o[0] < o[1] or (i and obs[i - 1][1] > o[0]):
                return False, "returned an ill-formed tier %r" % (obs,), classes
    else:
        i = 0
        while i < len(obs):
            j = i + 1
            while j < len(obs) and obs[j][0] == obs[i][0]:
                j += 1
            if sorted(o[1] for o in obs[i:j]) != sorted(e[1] for e in ents[i:j]):
                return False, "labels/order changed around position %d: observed %r from %r" % (i, obs, ents), classes
            for k in range(i, j):
                if obs[i][0] not in A[k][0]:
                    return False, "point %d moved %r -> %r; allowed %r (maxDifference %r, reference %r)" % (k, ents[k][0], obs[i][0], sorted(A[k][0]), D, refs), classes
            i = j
    if r["min"] > min([s["min"]] + [o[0] for o in obs]) or r["max"] < max([s["max"]] + [o[-2] for o in obs]):
        return False, "span [%r, %r] does not contain the old span and the entries" % (r["min"], r["max"]), classes
    return True, "", classes


def _dj_pre(ctx):
    t, ref = ctx.self_, ctx.arg(0, "referenceTier")
    D = ctx.arg(1, "maxDifference", 0.001)
    if not (snap.is_tier(t) and snap.is_tier(ref)) or not num(D) or D <= 0:
        return SKIP
    s, sr = snap.tier_snap(t), snap.tier_snap(ref)
    mon = "dejitter.interval" if s["t"] == "I" else "dejitter.point"
    if not (snap.wellformed_times(s) and snap.wellformed_times(sr)):
        REC.skip(mon, "ill-formed-operand")
        return SKIP
    return (mon, s, sr, D)


def _dj_post(ctx):
    mon, s, sr, D = ctx.pre
    if not sr["entries"]:
        # "empty references as error cases": with timestamps to adjust and nothing to adjust them to, the call must fail
        case = {"call": "dejitter", "tier": s, "ref": sr, "D": D}
        if not s["entries"]:
            REC.skip(mon, "empty-reference-and-empty-tier")
        elif ctx.exc is None:
            REC.violation(PROP, mon, "dejitter", case, "dejitter against a reference tier without timestamps returned %s instead of raising" % desc(ctx.result, None),
                          (mon, "empty-ref"), {"op": "dejitter", "empty_reference": True})
        else:
            REC.held(mon, (mon, "empty-ref"), "C14:empty-reference-raises", case)
        return
    refs = timestamps_of(sr)
    ok, msg, classes = judge_dejitter(s, refs, D, ctx.result, ctx.exc)
    REC.outcome(mon, ctx.exc)
    classes = list(classes) + ["C14:ref-is-point-tier" if sr["t"] == "P" else "C14:ref-is-interval-tier"]
    sig = (mon, sr["t"], D, tuple(classes), len(s["entries"]))
    case = {"call": "dejitter", "tier": s, "ref": sr, "D": D}
    _why = receiver_changed(ctx, s)
    if _why is None and ctx.exc is None and ctx.result is ctx.self_:
        # "returns the modified version of the current tier": a tier of its own, also when no timestamp had to move
        _why = "dejitter returned the tier it was called on: editing the result edits the source"
    if _why:
        REC.violation(PROP, "dejitter.interval" if s["t"] == "I" else "dejitter.point", "dejitter", case, _why, ("receiver-changed", "dejitter"), {"op": "dejitter", "receiver_changed": True})
        return
    if ok:
        REC.held(mon, sig if s["entries"] else None, classes, case)
    else:
        REC.violation(PROP, mon, "dejitter", case, msg, sig, {"op": "dejitter", "kind": s["t"], "exc": type(ctx.exc).__name__ if ctx.exc else None})


def _al_pre(ctx):
    tg, name, D = ctx.arg(0, "tg"), ctx.arg(1, "tierName"), ctx.arg(2, "maxDifference", 0.005)
    if not snap.is_tg(tg) or not num(D) or D <= 0:
        return SKIP
    s = snap.tg_snap(tg)
    if name not in s["keys"] or not all(snap.wellformed_times(t) for t in s["tiers"]) or s["keys"] != [t["name"] for t in s["tiers"]]:
        REC.skip("align", "outside-domain")
        return SKIP
    sr = s["tiers"][s["keys"].index(name)]
    if not sr["entries"]:
        REC.skip("align", "empty-reference")
        return SKIP
    return (s, name, D, sr, list(tg._tierDict.values()))


def _al_post(ctx):
    s, name, D, sr, held = ctx.pre
    refs = timestamps_of(sr)
    close_pair = any(F(b) - F(a) < F(D) * (1 + BAND) for a, b in zip(refs, refs[1:]))
    case = {"call": "align", "tg": s, "name": name, "D": D}
    sig = ("align", D, close_pair, tuple(t["t"] for t in s["tiers"]))
    mech = {"op": "align", "exc": type(ctx.exc).__name__ if ctx.exc else None}
    REC.outcome("align", ctx.exc)
    per_tier = []
    for ts in s["tiers"]:
        if ts["name"] != name:
            per_tier.append(ts)
    if ctx.exc is not None:
        if type(ctx.exc).__name__ == "ArgumentError" and close_pair:
            REC.held("align", sig, "C14:align:guard-fired", case)
            return
        if core.is_praatio_error(ctx.exc) and any(judge_dejitter(ts, refs, D, None, ctx.exc)[0] for ts in per_tier):
            REC.held("align", sig, "C14:collapse-or-cross", case)
            return
        REC.violation(PROP, "align", "alignBoundariesAcrossTiers", case, "raised %s: %s (consecutive reference timestamps closer than maxDifference: %s)" % (
            type(ctx.exc).__name__, ctx.exc, close_pair), sig, mech)
        return
    res = ctx.result
    if not snap.is_tg(res):
        REC.violation(PROP, "align", "alignBoundariesAcrossTiers", case, "returned %r" % (res,), sig, mech)
        return
    if res is not ctx.arg(0, "tg"):
        # documented: "Returns: the provided textgrid with aligned boundaries" - the caller's textgrid is the one that gets aligned
        # (callers use the function for its effect and drop what it returns)
        REC.violation(PROP, "align", "alignBoundariesAcrossTiers", case, "returned another textgrid object than the one provided (the provided one %s)" % (
            "was left as it was" if snap.snap_equal(snap.tg_snap(ctx.arg(0, "tg")), s) else "was changed as well"), sig, dict(mech, not_the_provided_object=True))
        return
    r = snap.tg_snap(res)
    if r["keys"] != s["keys"]:
        REC.violation(PROP, "align", "alignBoundariesAcrossTiers", case, "tier names/order %r, expected %r" % (r["keys"], s["keys"]), sig, mech)
        return
    for ts, tr in zip(s["tiers"], r["tiers"]):
        if ts["name"] == name:
            if not snap.snap_equal(ts, tr):
                REC.violation(PROP, "align", "alignBoundariesAcrossTiers", case, "the reference tier was changed: %r -> %r" % (ts, tr), sig, mech)
                return
            continue
        ok, msg, _ = judge_dejitter(ts, refs, D, res.getTier(ts["name"]), None)
        if not ok:
            REC.violation(PROP, "align", "alignBoundariesAcrossTiers", case, "tier %r: %s" % (ts["name"], msg), sig, mech)
            return
    # dejitter "returns the modified version of the current tier": the tier OBJECTS that were in the textgrid (a caller may hold
    # them, another textgrid may contain them) are as they were; the adjusted tiers are new ones
    for ts, obj in zip(s["tiers"], held):
        now = snap.tier_snap(obj)
        if now != ts:
            REC.violation(PROP, "align", "alignBoundariesAcrossTiers", case, "the tier object %r that was in the textgrid was rewritten in place: %r -> %r" % (ts["name"], ts["entries"], now["entries"]),
                          sig, dict(mech, in_place=True))
            return
    REC.held("align", sig, "C14:align:reference-untouched", case)


def _morph_pre(ctx):
    t, tgt = ctx.self_, ctx.arg(0, "targetTier")
    f = ctx.arg(1, "filterFunc", None)
    if not (snap.is_tier(t) and snap.is_tier(tgt)):
        return SKIP
    s, st = snap.tier_snap(t), snap.tier_snap(tgt)
    if s["t"] != "I" or st["t"] != "I" or not (snap.wellformed_times(s) and snap.wellformed_times(st)):
        REC.skip("morph", "outside-domain")
        return SKIP
    sel = None
    if f is not None:
        try:
            sel = [bool(f(e[2])) for e in s["entries"]]
        except Exception:
            REC.skip("morph", "filter-raised")
            return SKIP
    return (s, st, sel)


def _morph_post(ctx):
    s, st, sel = ctx.pre
    ents, tents = ents_of(s), ents_of(st)
    case = {"call": "morph", "tier": s, "target": st, "selected": sel}
    _why = receiver_changed(ctx, s)
    if _why:
        REC.violation(PROP, "morph", "morph", case, _why, ("receiver-changed", "morph"), {"op": "morph", "receiver_changed": True})
        return
    classes = []
    if sel is not None:
        classes.append("C14:morph:filter")
    sig = ("morph", len(ents), len(tents), tuple(sel) if sel else None, tuple(gen.cmp3(a[1], b[0]) for a, b in zip(ents, ents[1:])))
    mech = {"op": "morph", "exc": type(ctx.exc).__name__ if ctx.exc else None}
    REC.outcome("morph", ctx.exc)
    if len(ents) != len(tents):
        classes.append("C14:morph:count-mismatch")
        if ctx.exc is None or type(ctx.exc).__name__ != "SafeZipException":
            REC.violation(PROP, "morph", "morph", case, "tiers with different entry counts must raise SafeZipException, got %s" % desc(ctx.result, ctx.exc), sig, mech)
        else:
            REC.held("morph", sig, classes, case)
        return
    if not ents:
        classes.append("C14:morph:empty")
        # D14b: two operands without entries may be refused or answered with an entry-less tier - never with entries
        if ctx.exc is None and (not hasattr(ctx.result, "entries") or len(ctx.result.entries) != 0):
            REC.violation(PROP, "morph", "morph", case, "morph of tiers without entries returned %s" % desc(ctx.result, None), sig, mech)
        else:
            REC.held("morph", sig, classes, case)
        return
    exp = []
    adj = F(0)
    for i, (e, t) in enumerate(zip(ents, tents)):
        ns = F(e[0]) + adj
        own = F(e[1]) - F(e[0])
        if sel is None or sel[i]:
            dur = F(t[1]) - F(t[0])
            adj += dur - own
        else:
            dur = own
        exp.append((ns, ns + dur, e[2]))
    if not M.representable(exp):
        REC.skip("morph", "unrepresentable-result")
        return
    if ctx.exc is not None:
        REC.violation(PROP, "morph", "morph", case, "raised %s: %s" % (type(ctx.exc).__name__, ctx.exc), sig, mech)
        return
    if not snap.is_tier(ctx.result):
        REC.violation(PROP, "morph", "morph", case, "returned %r" % (ctx.result,), sig, mech)
        return
    r = snap.tier_snap(ctx.result)
    scale = M.maxabs(s["max"], st["max"], float(F(s["max"]) + adj), [float(x[1]) for x in exp])
    ulps = 4 * (len(ents) + 1)
    why = M.entries_close(ents_of(r), exp, scale, ulps)
    if why is None and not M.num_close(r["min"], F(min(s["min"], float(exp[0][0]))), scale, ulps):
        why = "span start %r, expected %r" % (r["min"], s["min"])
    if why is None and not M.num_close(r["max"], F(s["max"]) + adj, scale, ulps):
        why = "span end %r, expected %s (trailing gap preserved)" % (r["max"], M.fmt(F(s["max"]) + adj))
    if why is None and r["name"] != s["name"]:
        why = "name changed"
    if why is None:
        # a gap of nothing is a gap too, and the one gap rounding must not touch: intervals that met (end == next start) still meet -
        # otherwise an unlabelled sliver of a few ulps stands between them (and is written out as an interval of its own when saved)
        re_ = ents_of(r)
        for i in range(len(ents) - 1):
            if ents[i][1] == ents[i + 1][0]:
                classes.append("C14:morph:touching-intervals")
                if re_[i][1] != re_[i + 1][0]:
                    why = "intervals %d and %d met at %r in the source; in the result one ends at %r and the next starts at %r (a gap of nothing is not preserved)" % (
                        i, i + 1, ents[i][1], re_[i][1], re_[i + 1][0])
                    mech = dict(mech, touching_lost=True)
                    break
    if why:
        REC.violation(PROP, "morph", "morph", case, "%s; observed %r expected %r" % (why, r["entries"], M.fmt_entries(exp)), sig, mech)
    else:
        REC.held("morph", sig, classes, case)


_installed = False


def install():
    global _installed
    if _installed:
        return
    _installed = True
    from praatio.data_classes.interval_tier import IntervalTier
    from praatio.data_classes.point_tier import PointTier
    from praatio import praatio_scripts

    core.attach(IntervalTier, "dejitter", "dejitter.interval", _dj_pre, _dj_post)
    core.attach(PointTier, "dejitter", "dejitter.point", _dj_pre, _dj_post)
    core.attach(IntervalTier, "morph", "morph", _morph_pre, _morph_post)
    core.attach(praatio_scripts, "alignBoundariesAcrossTiers", "align", _al_pre, _al_post, method=False)


import re as _re

_re_ab = _re.compile("[ab]")


def jitter_tier(rng, refs, D, kind, dyadic, tiny=False):
    """A tier whose timestamps sit at chosen distances from reference timestamps; tiny: every timestamp misses its reference
    timestamp by rounding-noise-sized amounts only (1 ulp .. 1e-10 relative) or is far out of range."""
    n = rng.randrange(1, 5)
    vals = set()
    for _ in range(2 * n if kind == "I" else n):
        r = rng.choice(refs)
        c = rng.random()
        sign = rng.choice((-1, 1))
        if tiny:
            v = r + sign * max(abs(r), 0.01) * rng.choice((2.3e-16, 1e-14, 1e-12, 1e-10)) if c < 0.8 else r + sign * D * 9
        elif c < 0.3:
            v = r + sign * D * rng.choice((0.25, 0.5, 0.75))
        elif c < 0.45:
            v = r + sign * D  # exactly at D (exact on the dyadic grid, within the band otherwise)
        elif c < 0.55:
            v = r + sign * D * rng.choice((1.01, 1.25, 1.5, 1 + 1e-11, 1 + 1e-10, 1 + 5e-10, 1 + 3e-9))
        elif c < 0.8 and len(refs) > 1:
            i = rng.randrange(len(refs) - 1)
            v = (refs[i] + refs[i + 1]) / 2  # equidistant between two candidates
        elif c < 0.88:
            v = r
        else:
            v = r + sign * D * rng.choice((5, 9, 17))
        if v >= 0:
            vals.add(v)
    vals = sorted(vals)
    if kind == "P":
        return [(v, rng.choice("abc")) for v in vals]
    ents = []
    i = 0
    while i + 1 < len(vals):
        ents.append((vals[i], vals[i + 1], rng.choice("abc")))
        i += rng.choice((1, 2))
    return ents


def workload(tier, rng, shard, nshards, work):
    with contextlib.redirect_stdout(io.StringIO()):
        _workload(tier, rng, shard, nshards)

    # objects that carry a history (mutated in place, or produced by earlier operations): the monitors judge every call made on them
    import contextlib as _cl
    import io as _io
    from workloads.histories import run_histories, RefusedEditFrame

    with _cl.redirect_stdout(_io.StringIO()):
        run_histories(rng, (300 if tier == "quick" else 8000) // nshards, observer=RefusedEditFrame(PROP))


def _workload(tier, rng, shard, nshards):
    from praatio import praatio_scripts
    from praatio.data_classes.textgrid import Textgrid

    n = (10000 if tier == "quick" else 300000) // nshards
    for k in range(n):
        dyadic = k % 2 == 0
        if dyadic:
            D = rng.choice([1 / 8, 1 / 16, 1 / 32])
            refs = sorted({rng.randrange(0, 40) / 8 for _ in range(rng.randrange(1, 6))})
        else:
            D = rng.choice([1e-3, 5e-3, 0.01, 0.05])
            refs = sorted({rng.randrange(0, 500) / 100 for _ in range(rng.randrange(1, 6))})
        if rng.random() < 0.12 and refs:  # two reference timestamps closer than maxDifference: the spacing guard may fire
            refs = sorted(set(refs) | {rng.choice(refs) + D * rng.choice((0.5, 0.75))})
        rkind = rng.choice("IP")
        if rkind == "P" or len(refs) < 2:
            rents = [(r, "r") for r in refs]
            if refs and rng.random() < 0.12:
                # two marks on one instant in the reference tier (a tone and a boundary on the same point): still one timestamp
                rents = sorted(rents + [(rng.choice(refs[: max(1, len(refs) - 1)]), "r2")])
                REC.cls("C14:reference-with-two-points-at-one-time")
            ref = make_tier("P", "ref", rents, 0.0, 6.0)
        else:
            ref = make_tier("I", "ref", [(refs[i], refs[i + 1], "r") for i in range(0, len(refs) - 1, 2)], 0.0, 6.0)
        refs = sorted({v for e in ref.entries for v in e[:-1]})
        kind = rng.choice("IIP")
        ents = jitter_tier(rng, refs, D, kind, dyadic)
        t = make_tier(kind, "t", ents, 0.0, 6.0 + 20 * D)
        if D == 1e-3 and rng.random() < 0.5:
            REC.cls("C14:dejitter:default-maxDifference")
            call(t.dejitter, ref)  # the documented default is 0.001
        else:
            call(t.dejitter, ref, D)
        if k % 9 == 4 and ents:
            # the same pair on a time axis that runs below zero (times before a reference event): nothing about snapping to the
            # nearest reference timestamp depends on where zero is
            sh = rng.choice([2.0, 2.5, 4.0])
            REC.cls("C14:dejitter:negative-time-axis")
            try:
                tn = make_tier(kind, "t", [tuple(x - sh for x in e[:-1]) + (e[-1],) for e in ents], -sh, 6.0 + 20 * D - sh)
                rn = make_tier("P" if ref.tierType == "PointTier" else "I", "ref", [tuple(x - sh for x in e[:-1]) + (e[-1],) for e in ref.entries], -sh, 6.0 - sh)
            except Exception:
                tn = rn = None
            if tn is not None:
                call(tn.dejitter, rn, D)
        if k % 40 == 0:
            call(t.dejitter, make_tier(rng.choice("IP"), "noref", [], 0.0, 6.0), D)
        if k % 3 == 0 and len(ref.entries) >= 2:
            # the reference tier is edited in place between two adjustments against it
            REC.cls("C14:reference-edited-between-calls")
            with core.paused():
                victim = rng.choice(ref.entries)
                ref.deleteEntry(victim)
                if rng.random() < 0.4:
                    extra = rng.choice(refs) + D * 3
                    call(ref.insertEntry, (extra, extra + D * 2, "n") if ref.tierType == "IntervalTier" else (extra, "n"), "replace", "silence")
            call(t.dejitter, ref, D)
            refs = sorted({v for e in ref.entries for v in e[:-1]}) or refs
        if k % 4 in (0, 3):  # (k % 4 == 0 alone would only ever align the dyadic cases)
            tg = Textgrid()
            tg.addTier(t, reportingMode="silence")
            tg.addTier(ref, 0 if rng.random() < 0.5 else None, reportingMode="silence")
            k2 = rng.choice("IP")
            tiny = rng.random() < 0.3
            if tiny:
                REC.cls("C14:align:rounding-noise-sized-jitter")
            # (the third tier's name is sometimes a part of the reference tier's name - "word" beside "words" - or has it as a part)
            tg.addTier(make_tier(k2, rng.choice(["u", "u", "ef", "re", "refs"]), jitter_tier(rng, refs, D, k2, dyadic, tiny), 0.0, 6.0 + 20 * D), rng.choice([None, 0, 1]), reportingMode="silence")
            if refs and rng.random() < 0.3:
                # a tier that covers only the stretch before the first (or after the last) reference timestamp - a cropped tier, or
                # one built without an explicit span - whose outermost boundary is within maxDifference of that timestamp
                REC.cls("C14:align:tier-span-beside-the-reference-timestamps")
                f = rng.choice([0.3, 0.6, 0.9])
                if rng.random() < 0.5 and refs[0] - f * D > 0.05:
                    edge = refs[0] - f * D
                    v = make_tier("I", "v", [(edge / 2, edge, "v")], 0.0, edge) if rng.random() < 0.6 else make_tier("P", "v", [(edge, "v")], 0.0, edge)
                else:
                    edge = refs[-1] + f * D
                    v = make_tier("I", "v", [(edge, edge + 0.5, "v")], edge, 6.0 + 20 * D) if rng.random() < 0.6 else make_tier("P", "v", [(edge, "v")], edge, 6.0 + 20 * D)
                tg.addTier(v, reportingMode="silence")
            refname = "ref"
            if k % 3 == 1:
                # which tier is the reference is the caller's choice, and so is its name: here the reference is called like the
                # tier that was aligned the last time round, and the tier to align like the last reference
                with core.paused():
                    swap = {"ref": "t", "t": "ref"}
                    tg2 = Textgrid()
                    for tt in tg.tiers:
                        tg2.addTier(tt.new(name=swap.get(tt.name, tt.name)), reportingMode="silence")
                    tg, refname = tg2, "t"
                REC.cls("C14:align:reference-named-like-an-earlier-aligned-tier")
            if D == 5e-3 and rng.random() < 0.6:
                REC.cls("C14:align:default-maxDifference")
                call(praatio_scripts.alignBoundariesAcrossTiers, tg, refname)  # the documented default is 0.005
            else:
                call(praatio_scripts.alignBoundariesAcrossTiers, tg, refname, D)
    # the first few hundredths of a second: a timestamp that lies closer to zero than to the reference timestamp it is moved to (the
    # correction is larger than the value it corrects)
    for k in range((400 if tier == "quick" else 8000) // nshards):
        D = rng.choice([0.05, 0.05, 0.02, 0.1])
        r1 = rng.choice([0.03, 0.04, 0.05, 0.07, 0.013, 0.09]) * (D / 0.05) * 0.9
        r2 = r1 + rng.choice([1.0, 0.7, 2.3])
        ref = make_tier("P", "ref", [(r1, "r"), (r2, "r")], 0.0, 6.0)
        f = rng.choice([0.1, 0.25, 0.4, 0.05, 0.0])
        t1 = r1 * f
        kind = rng.choice("IP")
        if kind == "I":
            ents = [(t1, r2 + rng.choice([0.0, 0.3 * D, -0.3 * D, 2 * D]), "a")]
        else:
            ents = [(t1, "a"), (r2 - 0.4 * D, "b")]
        t = make_tier(kind, "t", ents, 0.0, 8.0)
        REC.cls("C14:dejitter:timestamp-nearer-to-zero-than-to-its-reference")
        call(t.dejitter, ref, D)

    m = (5000 if tier == "quick" else 100000) // nshards
    for k in range(m):
        _, src = gen.rand_time_source(rng)
        a = gen.rand_interval_entries(rng, 5, 5.0, src=src)
        r = rng.random()
        if r < 0.75:
            b = []
            for _i in range(100):
                b = gen.rand_interval_entries(rng, 5, 5.0, labels=["x", "y"], src=src)
                if len(b) == len(a):
                    break
            else:
                b = [(e[0], e[0] + (e[1] - e[0]) * 1.5, "x") for e in a]
                b = [(i * 1.0, i * 1.0 + (e[1] - e[0]), "x") for i, e in enumerate(b)]
        else:
            b = gen.rand_interval_entries(rng, 5, 5.0, labels=["x", "y"], src=src)
        if len(a) >= 2 and rng.random() < 0.2:
            # the target's durations are the source's own, handed round (swapped, rotated): every interval changes, the total does not
            durs = [e[1] - e[0] for e in a]
            if rng.random() < 0.6:
                j_ = rng.randrange(len(durs) - 1)
                durs[j_], durs[j_ + 1] = durs[j_ + 1], durs[j_]  # (d2 - d1) + (d1 - d2) is exactly 0 in floats, too
            else:
                durs = durs[1:] + durs[:1] if rng.random() < 0.5 else durs[::-1]
            pos, b = 0.0, []
            for d_ in durs:
                b.append((pos, pos + d_, "x"))
                pos += d_ + 0.25
            REC.cls("C14:morph:durations-permuted-total-unchanged")
        lo, hi = gen.span_for(rng, a, 5.0, "I")
        A = make_tier("I", "A", a, lo, hi)
        B = make_tier("I", "B", b, 0.0, max(5.0, len(b) + 1.0, (b[-1][1] if b else 0.0)))
        # filter functions need not return a bool: a regular-expression match object, a count, the label itself are common
        filt = rng.choice([None, None, lambda lab: lab in ("a", "b"), lambda lab: lab == "c", lambda lab: False,
                           _re_ab.search, lambda lab: lab.count("a") + lab.count("c"), lambda lab: lab if lab != "b" else "", lambda lab: [lab] if lab == "a" else []])
        call(A.morph, B, filt)
        if k % 50 == 0:
            E = make_tier("I", "E", [], 0.0, 1.0)
            call(E.morph, make_tier("I", "E2", [], 0.0, 2.0), None)


def replay(v, work):
    c = v["case"]
    with contextlib.redirect_stdout(io.StringIO()):
        if c["call"] == "dejitter":
            call(snap.build_tier(c["tier"]).dejitter, snap.build_tier(c["ref"]), c["D"])
        elif c["call"] == "align":
            from praatio import praatio_scripts

            call(praatio_scripts.alignBoundariesAcrossTiers, snap.build_tg(c["tg"]), c["name"], c["D"])
        else:
            sel = c["selected"]
            ents = c["tier"]["entries"]
            f = None
            if sel is not None:
                chosen = {e[2] for e, s_ in zip(ents, sel) if s_}
                f = lambda lab: [lab] if lab in chosen else []  # truthy / falsy, deliberately not a bool (the monitored call may have used either)
            call(snap.build_tier(c["tier"]).morph, snap.build_tier(c["target"]), f)


CLASSIFIERS = {}

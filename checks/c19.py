"""C19 - KlattGrid and point-object files round-trip every number exactly."""
import contextlib
import math
import io
import os

from vmon import core
from vmon.core import REC, SKIP
from models import klatt as K
from models.praat_text import SpecError
from checks.common import call, num

PROP = "C19"
NSHARDS = {"quick": 8, "thorough": 16}
TIMEOUT = {"quick": 900, "thorough": 5400}
RULE = (
    "case = one monitored klattgrid.openKlattgrid / Klattgrid.save / KlattContainerTier.modifySubtiers / KlattPointTier.modifyValues / "
    "data_points.open1DPointObject / open2DPointObject / PointObject.save call; a KlattGrid file encodes an ordered stream of numbers and "
    "flags (section names are comments), which the independent scanner extracts: the opened grid flattened in file order must equal the "
    "stream of the file it was read from, and the stream of a saved file must equal the grid in memory; modification functions are "
    "recorders (called exactly once per addressed value, never for others). Files: the reference KlattGrid and synthetic ones from the "
    "independent writer (1-6 formants, 0-5 points per tier, Praat-style trailing blanks and praatio-style none; values: integers, 0, "
    "17-digit decimals, tiny/huge magnitudes, negative); point objects of 3 classes x 0..n points x long/short form x several spans. "
    "distinct = (operation, file style, formant count, value classes, points-per-tier pattern); non-trivial = at least one point."
)
ASSUMPTIONS = [
    "'digit for digit' = == on the parsed floats (so 5 == 5.0 and -0.0 == 0.0) (D17)",
    "a KlattGrid's content is positional (Praat ignores the section names); names of the top-level sections are compared separately",
]
EXHAUSTIVE = {"quick": False, "thorough": False}


def floors(tier):
    return {
        "evals": {"kg.open": 250, "kg.save": 250, "kg.modify": 250, "po.open": 2000, "po.save": 1000, "kg.reopen": 200},
        "classes": {"C19:modify-last-subtier-with-short-integer": 15, "C19:praat-style-trailing-blank": 100, "C19:praatio-style-no-trailing-blank": 100,
                    "C19:reference-file": 2, "C19:po:zero-points": 100, "C19:po:long": 500, "C19:po:short": 500, "C19:po:PointProcess": 200,
                    "C19:po:PitchTier": 200, "C19:po:DurationTier": 200, "C19:po:long-short-equal": 300, "C19:value:integer": 100, "C19:value:zero": 30,
                    "C19:value:tiny-or-huge": 50, "C19:value:negative": 30, "C19:modify-amplitudes-tier": 20, "C19:modify-directly-after-a-save": 20},
    }


# ---------------- snapshots ----------------------------------------------------------
def _pack(obj):
    import base64
    import json
    import zlib

    return base64.b64encode(zlib.compress(json.dumps(obj).encode("utf-8"), 9)).decode("ascii")


def _unpack(text):
    import base64
    import json
    import zlib

    return json.loads(zlib.decompress(base64.b64decode(text)).decode("utf-8"))


def kg_snapshot(kg):
    tiers = []
    for name in kg.tierNames:
        t = kg._tierDict[name]
        if hasattr(t, "tierNameList"):
            inter = []
            for iname in t.tierNameList:
                it = t.tierDict[iname]
                subs = []
                for sname in it.tierNameList:
                    st = it.tierDict[sname]
                    subs.append({"name": sname, "min": st.minTimestamp, "max": st.maxTimestamp, "entries": [tuple(e) for e in st.entries]})
                inter.append({"name": iname, "subs": subs})
            tiers.append({"name": name, "min": t.minTimestamp, "max": t.maxTimestamp, "inter": inter})
        else:
            tiers.append({"name": name, "min": t.minTimestamp, "max": t.maxTimestamp, "entries": [tuple(e) for e in t.entries]})
    return {"min": kg.minTimestamp, "max": kg.maxTimestamp, "tiers": tiers}


def kg_consistent(s):
    """the spans a snapshot declares contain what lies beneath them (points in their tier, sub-tiers in their group, tiers in the grid)
    and a group's span is the union of its sub-tiers' spans - what every grid read from a well-formed file satisfies"""
    try:
        for t in s["tiers"]:
            if t["min"] is None or t["max"] is None or not (s["min"] <= t["min"] and t["max"] <= s["max"]):
                return False
            if "inter" not in t:
                if not all(t["min"] <= e[0] <= t["max"] for e in t["entries"]):
                    return False
                continue
            subs = [st for it in t["inter"] for st in it["subs"]]
            for st in subs:
                if st["min"] is None or st["max"] is None or not all(st["min"] <= e[0] <= st["max"] for e in st["entries"]):
                    return False
            if subs and (min(st["min"] for st in subs) != t["min"] or max(st["max"] for st in subs) != t["max"]):
                return False
        return True
    except TypeError:
        return False


def insert_subtier(kg, ins):
    """ins = [container, intermediate, serial, index seed]: adds a sub point tier to that intermediate tier at an index"""
    from praatio.data_classes.klattgrid import KlattSubPointTier

    try:
        cont = kg._tierDict[ins[0]]
        kit = cont.tierDict[ins[1]]
        idx = ins[3] % (len(kit.tierNameList) + 1)
        name = "%s [x%d]" % (kit.name, ins[2])
        lo = kit.minTimestamp if kit.minTimestamp is not None else (kg.minTimestamp or 0)
        hi = kit.maxTimestamp if kit.maxTimestamp is not None else (kg.maxTimestamp or 1.0)
        times, values = [lo + (hi - lo) / 4, lo + (hi - lo) / 2], [1800.0 + ins[2], 1750.125]
        entries = zip(times, values) if ins[2] % 2 else list(zip(times, values))  # the points may arrive as a one-shot iterable
        sub = KlattSubPointTier(name, entries, lo, hi)
        names_before = list(kit.tierNameList)
        at = idx if idx < len(kit.tierNameList) else None
        kit.addTier(sub, at)
        names_exp = names_before + [name] if at is None else names_before[:at] + [name] + names_before[at:]
        if list(kit.tierNameList) != names_exp or kit.tierDict.get(name) is not sub:
            REC.violation(PROP, "kg.save", "addTier", {"call": "kg.subtier", "times": times, "values": values, "one_shot": bool(ins[2] % 2)},
                          "a sub-tier added at index %r: the tier's name list is %r, expected %r" % (at, list(kit.tierNameList), names_exp),
                          ("subtier-order",), {"op": "kg.subtier.order"})
        held = [(float(t), float(v)) for t, v in sub.entries]
        if held != list(zip(times, values)):
            REC.violation(PROP, "kg.save", "KlattSubPointTier", {"call": "kg.subtier", "times": times, "values": values, "one_shot": bool(ins[2] % 2)},
                          "a sub-tier built from %s of %d points holds %r" % ("a one-shot iterable" if ins[2] % 2 else "a list", len(times), held),
                          ("subtier-points",), {"op": "kg.subtier"})
        else:
            REC.held("kg.save", ("subtier-points", bool(ins[2] % 2)), None, None)
        REC.cls("C19:subtier-inserted-at-index")
        _current["inserted"] = [cont.name, kit.name, name]
    except Exception as e:
        REC.note("sub-tier insertion failed: %s" % type(e).__name__)


def rebuild_kg(s, inserted=None):
    """a Klattgrid assembled through the API from a snapshot; a sub-tier named in *inserted* ([container, intermediate, name]) is
    added last, at the index the snapshot shows it at - the way the workload produced it"""
    from praatio.data_classes.klattgrid import Klattgrid, KlattContainerTier, KlattIntermediateTier, KlattPointTier, KlattSubPointTier

    kg = Klattgrid(s["min"], s["max"])
    for t in s["tiers"]:
        if "inter" not in t:
            kg.addTier(KlattPointTier(t["name"], [tuple(e) for e in t["entries"]], t["min"], t["max"]))
            continue
        cont = KlattContainerTier(t["name"])
        cont.minTimestamp, cont.maxTimestamp = t["min"], t["max"]
        for it in t["inter"]:
            kit = KlattIntermediateTier(it["name"])
            late = None
            for i, st in enumerate(it["subs"]):
                sub = KlattSubPointTier(st["name"], [tuple(e) for e in st["entries"]], st["min"], st["max"])
                if inserted and [t["name"], it["name"], st["name"]] == list(inserted):
                    late = (sub, i)
                else:
                    kit.addTier(sub)
            if late:
                kit.addTier(late[0], late[1] if late[1] < len(kit.tierNameList) else None)
            cont.addTier(kit)
        cont.minTimestamp, cont.maxTimestamp = t["min"], t["max"]
        kg.addTier(cont)
    kg.minTimestamp, kg.maxTimestamp = s["min"], s["max"]
    return kg


def flatten(s):
    """the number/flag stream a snapshot encodes, in file order"""
    out = [("n", s["min"]), ("n", s["max"])]
    for t in s["tiers"]:
        out.append(("f", "exists"))
        out += [("n", t["min"]), ("n", t["max"])]
        if "inter" in t:
            for it in t["inter"]:
                out.append(("n", len(it["subs"])))
                for st in it["subs"]:
                    out += [("n", st["min"]), ("n", st["max"]), ("n", len(st["entries"]))]
                    for e in st["entries"]:
                        out += [("n", e[0]), ("n", e[1])]
        else:
            if t["name"] not in K.NULL_TIERS:
                out.append(("n", len(t["entries"])))
            for e in t["entries"]:
                out += [("n", e[0]), ("n", e[1])]
    return out


def stream_diff(a, b):
    """first difference between two streams (== on floats), or None"""
    for i, (x, y) in enumerate(zip(a, b)):
        try:
            same = x[0] == y[0] and (x[1] == y[1] if x[0] == "f" else float(x[1]) == float(y[1]))
        except (TypeError, ValueError):
            same = False
        if not same:
            return "item %d: %r vs %r (context %r | %r)" % (i, x, y, a[max(0, i - 3):i + 2], b[max(0, i - 3):i + 2])
    if len(a) != len(b):
        return "lengths %d vs %d (first extra item %r)" % (len(a), len(b), (a[len(b):] or b[len(a):])[0])
    return None


def _read(fn):
    raw = open(fn, "rb").read()
    if raw[:2] in (b"\xff\xfe", b"\xfe\xff"):
        return raw.decode("utf-16").replace("\r\n", "\n")
    return raw.decode("utf-8-sig").replace("\r\n", "\n")


# ---------------- klattgrid monitors -----------------------------------------------------
def _open_pre(ctx):
    fn = ctx.arg(0, "fnFullPath")
    try:
        text = _read(fn)
        strings, stream = K.number_stream(text)
    except (OSError, SpecError, UnicodeError):
        return SKIP
    if strings[:2] != ["ooTextFile", "KlattGrid"]:
        return SKIP
    try:
        import re

        lo = hi = None
        for m in re.finditer(r"^\s*(xmin|xmax|number) = (\S+)\s*$", text, re.M):
            v = float(m.group(2))
            if m.group(1) == "xmin":
                lo = v
            elif m.group(1) == "xmax":
                hi = v
            elif lo is not None and hi is not None and not lo <= v <= hi:
                # a point outside the span its own tier declares: not a well-formed KlattGrid (such a file comes out of a tree in
                # which an earlier step has already been reported), the reader is not judged on it
                REC.skip("kg.open", "point-outside-the-span-its-tier-declares")
                return SKIP
    except ValueError:
        pass
    if _bad_saves.get(os.path.abspath(str(fn))) == text:
        # this very text was written by a save that has just been reported: the reader is not judged on a file that does not say
        # what was in memory (and a replay of "opening this file" would accuse the reader of any tree)
        REC.skip("kg.open", "file-written-by-a-save-that-was-reported")
        return SKIP
    return (fn, text, stream)


_current = {"classes": [], "sig": None}
_bad_saves = {}  # path -> text written there by a save whose output was reported as wrong


def _open_post(ctx):
    fn, text, stream = ctx.pre
    import base64
    import zlib

    case = {"call": "kg.open", "file": text if len(text) < 30000 else None,
            "file_zb64": base64.b64encode(zlib.compress(text.encode("utf-8"), 9)).decode("ascii") if len(text) >= 30000 else None}
    classes = list(_current["classes"])
    sig = _current["sig"] or ("kg.open", os.path.basename(fn))
    mech = {"op": "kg.open", "exc": type(ctx.exc).__name__ if ctx.exc else None}
    REC.outcome("kg.open", ctx.exc)
    if ctx.exc is not None:
        REC.violation(PROP, "kg.open", "openKlattgrid", case, "opening a well-formed KlattGrid raised %s: %s" % (type(ctx.exc).__name__, ctx.exc), sig, mech)
        return
    try:
        s = kg_snapshot(ctx.result)
    except Exception as e:
        REC.violation(PROP, "kg.open", "openKlattgrid", case, "returned object cannot be walked: %s" % e, sig, mech)
        return
    why = stream_diff(flatten(s), stream)
    if why is None and [t["name"] for t in s["tiers"]] != K.section_names(text):
        why = "tier names %r, the file's sections are %r" % ([t["name"] for t in s["tiers"]], K.section_names(text))
    if why:
        REC.violation(PROP, "kg.open", "openKlattgrid", case, "the opened grid (flattened, left) differs from the number stream the file encodes (right): %s" % why, sig, mech)
    else:
        REC.held("kg.open", sig, classes, None)


def _save_pre(ctx):
    kg = ctx.self_
    if not hasattr(kg, "tierNames"):
        return SKIP
    try:
        return (kg_snapshot(kg), ctx.arg(0, "fn"))
    except Exception:
        return SKIP


def _save_post(ctx):
    s, fn = ctx.pre
    sig = _current["sig"] or ("kg.save",)
    sig = ("save",) + tuple(sig)
    big = len(flatten(s)) >= 600
    case = {"call": "kg.save", "snapshot": s if not big else None, "snapshot_zb64": _pack(s) if big else None,
            "inserted": _current.get("inserted")}
    mech = {"op": "kg.save", "exc": type(ctx.exc).__name__ if ctx.exc else None}
    REC.outcome("kg.save", ctx.exc)
    if ctx.exc is not None:
        REC.violation(PROP, "kg.save", "Klattgrid.save", case, "raised %s: %s" % (type(ctx.exc).__name__, ctx.exc), sig, mech)
        return
    try:
        text = _read(fn)
        strings, stream = K.number_stream(text)
    except Exception as e:
        REC.violation(PROP, "kg.save", "Klattgrid.save", case, "the saved file cannot be scanned: %s" % e, sig, mech)
        return
    why = None
    if strings[:2] != ["ooTextFile", "KlattGrid"]:
        why = "header strings %r" % strings[:2]
    else:
        why = stream_diff(stream, flatten(s))
        if why is None and K.section_names(text) != [t["name"] for t in s["tiers"]]:
            why = "sections %r, tiers in memory %r" % (K.section_names(text), [t["name"] for t in s["tiers"]])
        if why is None:
            # the points of every tier are numbered 1 .. size, as the size line announces (a reader that goes by these numbers - Praat
            # does - finds every point)
            import re as _re

            want, nxt = None, None
            for ln in text.split("\n"):
                m1 = _re.match(r"^\s*points: size = (\d+)\s*$", ln)
                m2 = _re.match(r"^\s*points \[(\d+)\]:\s*$", ln)
                if m1:
                    if want is not None and nxt != want + 1:
                        why = "a tier announces %d points and numbers %d of them" % (want, nxt - 1)
                        break
                    want, nxt = int(m1.group(1)), 1
                elif m2:
                    if want is None or int(m2.group(1)) != nxt or nxt > want:
                        why = "point numbered %s where number %s of %s was due" % (m2.group(1), nxt, want)
                        break
                    nxt += 1
            if why is None and want is not None and nxt != want + 1:
                why = "the last tier announces %d points and numbers %d of them" % (want, nxt - 1)
    if why:
        _bad_saves[os.path.abspath(str(fn))] = text
        REC.violation(PROP, "kg.save", "Klattgrid.save", case, "the saved file's number stream (left) differs from the grid in memory (right): %s" % why, sig, mech)
    else:
        _bad_saves.pop(os.path.abspath(str(fn)), None)
        REC.held("kg.save", sig, None, None)


# ---------------- modification (driver-level: the function is a recorder) -----------------
class Recorder:
    def __init__(self, f):
        self.f = f
        self.seen = []

    def __call__(self, v):
        self.seen.append(v)
        return self.f(v)


def modify(kg, container, inter_name, fname, f, work, k, last_sub, direct=False):
    """kg.tierDict[container].modifySubtiers(inter_name, f) then save/open: addressed values are exactly float(f(v)),
    everything else untouched, f called exactly once per addressed value."""
    from praatio import klattgrid

    before = kg_snapshot(kg)
    if not kg_consistent(before):
        # (a grid that an earlier, already reported step left inconsistent is not an input whose consequences are judged again)
        REC.skip("kg.modify", "grid-already-inconsistent")
        return None
    rec = Recorder(f)
    if fname.endswith("+default-arg"):
        # the callback a caller writes in a loop (`lambda v, k=k: v * k`): one value in, its other parameter has a default
        seen_ = rec.seen

        def rec2(v, factor=1.0625):  # noqa: the second parameter is never passed by the documented contract
            seen_.append(v)
            return v * factor  # (= f(v) as long as nobody hands the callback a second argument)

        rec2.seen = seen_
        rec = rec2
    big = len(flatten(before)) >= 600
    case = {"call": "kg.modify", "container": container, "inter": inter_name, "func": fname, "grid": before if not big else None,
            "grid_zb64": _pack(before) if big else None, "direct": direct}
    sig = ("modify", container, inter_name, fname, last_sub)
    mech = {"op": "kg.modify", "func": fname}
    try:
        if direct:
            kit = kg._tierDict[container].tierDict[inter_name]
            for sname in kit.tierNameList:
                kit.tierDict[sname].modifyValues(rec)
        else:
            kg._tierDict[container].modifySubtiers(inter_name, rec)
    except Exception as e:
        REC.violation(PROP, "kg.modify", "modifySubtiers", case, "raised %s: %s" % (type(e).__name__, e), sig, dict(mech, exc=type(e).__name__))
        return None
    after = kg_snapshot(kg)
    exp = before
    addressed = []
    for t in exp["tiers"]:
        if t["name"] == container:
            for it in t["inter"]:
                if it["name"] == inter_name:
                    for st in it["subs"]:
                        addressed += [e[1] for e in st["entries"]]
                        st["entries"] = [(e[0], f(float(e[1]))) for e in st["entries"]]
    if sorted(map(float, rec.seen)) != sorted(map(float, addressed)):
        REC.violation(PROP, "kg.modify", "modifySubtiers", case, "the function was called for %d values %r..., the addressed sub-tiers hold %d values %r..." % (
            len(rec.seen), rec.seen[:6], len(addressed), addressed[:6]), sig, mech)
        return None
    why = stream_diff(flatten(after), flatten(exp))
    if why:
        REC.violation(PROP, "kg.modify", "modifySubtiers", case, "after modification the grid (left) differs from the expectation (right): %s" % why, sig, mech)
        return None
    fn = os.path.join(str(work), "mod%d.KlattGrid" % (k % 3))
    try:
        kg.save(fn)
        back = klattgrid.openKlattgrid(fn)
    except Exception as e:
        return None  # judged by the save/open monitors
    why = stream_diff(flatten(kg_snapshot(back)), [(a, float(b) if a == "n" else b) for a, b in flatten(exp)])
    if why:
        REC.violation(PROP, "kg.modify", "modifySubtiers;save;open", case, "after modifying with %s, saving and reopening, the grid (left) differs from the expectation (right): %s" % (fname, why), sig, mech)
        return None
    REC.held("kg.modify", sig if addressed else None, None, None)
    return back


# ---------------- point objects ------------------------------------------------------------
def po_snapshot(po):
    return {"class": po.objectClass, "min": po.minTime, "max": po.maxTime, "points": [tuple(p) for p in po.pointList]}


def _po_open_pre(ctx):
    fn = ctx.arg(0, "fn")
    try:
        text = _read(fn)
        doc = K.read_point_object(text)
    except (OSError, SpecError, UnicodeError):
        REC.skip("po.open", "file-not-spec-conformant")
        return SKIP
    return (text, doc)


def _po_open_post(ctx):
    text, (klass, lo, hi, pts) = ctx.pre
    case = {"call": "po.open", "file": text[:4000], "dim": 1 if "1D" in ctx.name else 2}
    long_form = "xmin" in text[:100]
    classes = ["C19:po:" + klass, "C19:po:long" if long_form else "C19:po:short"]
    if not pts:
        classes.append("C19:po:zero-points")
    sig = ("po.open", klass, long_form, min(len(pts), 6), text.count("e-") > 0)
    mech = {"op": "po.open", "klass": klass, "long": long_form, "npoints": len(pts), "exc": type(ctx.exc).__name__ if ctx.exc else None}
    REC.outcome("po.open", ctx.exc)
    want1d = klass == "PointProcess"
    if want1d != ("1D" in ctx.name):
        return
    if ctx.exc is not None:
        REC.violation(PROP, "po.open", ctx.name, case, "opening a spec-conformant %s file (%s form, %d points) raised %s: %s" % (klass, "long" if long_form else "short", len(pts), type(ctx.exc).__name__, ctx.exc), sig, mech)
        return
    try:
        s = po_snapshot(ctx.result)
    except Exception as e:
        REC.violation(PROP, "po.open", ctx.name, case, "returned %r" % (ctx.result,), sig, mech)
        return
    if s["class"] != klass or s["min"] != lo or s["max"] != hi or s["points"] != pts:
        REC.violation(PROP, "po.open", ctx.name, case, "opened %r, the file encodes class %r span [%r, %r] points %r..." % (dict(s, points=s["points"][:6]), klass, lo, hi, pts[:6]), sig, mech)
    else:
        REC.held("po.open", sig if pts else None, classes, None)


def _po_save_pre(ctx):
    try:
        return (po_snapshot(ctx.self_), ctx.arg(0, "fn"))
    except Exception:
        return SKIP


def _po_save_post(ctx):
    s, fn = ctx.pre
    case = {"call": "po.save", "object": s}
    sig = ("po.save", s["class"], min(len(s["points"]), 6))
    mech = {"op": "po.save", "exc": type(ctx.exc).__name__ if ctx.exc else None}
    if not all(num(v) for p in s["points"] for v in p) or not (num(s["min"]) and num(s["max"])):
        return
    if ctx.exc is not None:
        REC.violation(PROP, "po.save", "PointObject.save", case, "raised %s: %s" % (type(ctx.exc).__name__, ctx.exc), sig, mech)
        return
    try:
        doc = K.read_point_object(_read(fn))
    except Exception as e:
        REC.violation(PROP, "po.save", "PointObject.save", case, "the saved file is not a well-formed point object: %s" % e, sig, mech)
        return
    if doc != (s["class"], s["min"], s["max"], s["points"]):
        REC.violation(PROP, "po.save", "PointObject.save", case, "the saved file encodes %r, in memory %r" % ((doc[0], doc[1], doc[2], doc[3][:6]), (s["class"], s["min"], s["max"], s["points"][:6])), sig, mech)
    else:
        REC.held("po.save", sig if s["points"] else None, None, None)


_installed = False


def install():
    global _installed
    if _installed:
        return
    _installed = True
    from praatio import data_points, klattgrid
    from praatio.data_classes.data_point import PointObject
    from praatio.data_classes.klattgrid import Klattgrid

    core.attach(klattgrid, "openKlattgrid", "kg.open", _open_pre, _open_post, method=False)
    core.attach(Klattgrid, "save", "kg.save", _save_pre, _save_post)
    core.attach(data_points, "open1DPointObject", "po.open", _po_open_pre, _po_open_post, method=False)
    core.attach(data_points, "open2DPointObject", "po.open", _po_open_pre, _po_open_post, method=False)
    core.attach(PointObject, "save", "po.save", _po_save_pre, _po_save_post)


# ---------------- workload -------------------------------------------------------------------
FUNCS = {
    "x1.2": lambda v: v * 1.2, "x1/3": lambda v: v * (1 / 3), "const50": lambda v: 50, "const5": lambda v: 5, "const0": lambda v: 0,
    "neg": lambda v: -v, "tiny": lambda v: 1e-300 * v, "huge": lambda v: 1e300, "identity": lambda v: v, "const7.0": lambda v: 7.0,
    "int(v)": lambda v: int(v), "x10": lambda v: v * 10,
    # every 5 becomes a 7, every 1 a 2: other values, written with exactly as many characters as before
    "5to7": lambda v: float(repr(float(v)).replace("5", "7").replace("1", "2")),
    "x1.0625+default-arg": lambda v: v * 1.0625,
}


def rand_value(rng):
    r = rng.random()
    if r < 0.2:
        REC.cls("C19:value:integer")
        return float(rng.randrange(1, 5000))
    if r < 0.27:
        REC.cls("C19:value:zero")
        return 0.0
    if r < 0.31:
        import math

        REC.cls("C19:value:a-rounding-step-from-a-whole-number")
        n = float(rng.choice([3, 121, 500, 4999]))
        return rng.choice([math.nextafter(n, math.inf), math.nextafter(n, 0), n * (1 + 4e-16), -math.nextafter(n, math.inf)])
    if r < 0.35:
        REC.cls("C19:value:tiny-or-huge")
        return rng.choice([1e-300, 3.5e-12, 1e300, 2.5e17, 5e-05])
    if r < 0.42:
        REC.cls("C19:value:negative")
        return -rng.uniform(0.1, 90)
    if r < 0.5:
        return float(rng.choice([5, 50, 7, 10, 100, 2000]))
    return rng.uniform(0, 5000)


def rand_points(rng, hi, nmax=5, lo=0):
    n = rng.randrange(0, nmax + 1)
    w = hi - lo
    ts = sorted({rng.choice([lo + rng.uniform(0, w), lo + rng.randrange(0, int(w * 1000)) / 1000, lo + rng.randrange(0, int(w * 8)) / 8]) for _ in range(n)})
    pts = [(t, rand_value(rng)) for t in ts if lo <= t <= hi]
    if rng.random() < 0.25:
        # a track sampled up to and including the end of its span (or from its very start): the first / last point sits exactly on
        # the span's edge
        edge = rng.choice([hi, hi, lo])
        if all(t != edge for t, _v in pts):
            pts = sorted(pts + [(edge, rand_value(rng))])
            REC.cls("C19:kg:point-exactly-on-the-span-edge")
    if pts and rng.random() < 0.06:
        # the very same point listed twice (two different values at one time would come back ordered by value - the reader sorts -,
        # which a value-reversing modification turns round: the order among such points is left out of the comparison by not making them)
        j = rng.randrange(len(pts))
        t, v = pts[j]
        pts[j:j + 1] = [(t, v), (t, v)]
        REC.cls("C19:kg:two-points-at-one-time")
    return pts


def rand_spec(rng):
    hi = rng.choice([1.0, 1.194625, 2.5, 10.0])
    nform = rng.randrange(1, 7)
    nfric = rng.randrange(1, 7)
    # the time axis usually starts at 0; it may also start elsewhere: below zero, at a fraction, or a hair above a whole number
    lo = rng.choice([0, 0, 0, 0.0, 0.25, -0.25, -1.5, 1 + 5e-10, 2 + 1e-12, -3])
    if lo > hi - 0.5:
        hi = lo + hi
    spec = {"xmin": lo, "xmax": hi, "points": {}, "oral": [rand_points(rng, hi, 5, lo) for _ in range(nform)], "oral_bw": [rand_points(rng, hi, 5, lo) for _ in range(nform)],
            "fric": [rand_points(rng, hi, 3, lo) for _ in range(nfric)], "fric_bw": [rand_points(rng, hi, 3, lo) for _ in range(nfric)],
            "nasal": rand_points(rng, hi, 2, lo), "delta": rand_points(rng, hi, 2, lo)}
    for name in K.POINT_TIERS_1 + ["fricationAmplitude", "bypass", "gain"]:
        if rng.random() < 0.5:
            spec["points"][name] = rand_points(rng, hi, 5, lo)
    if rng.random() < 0.12:
        # a grid created without frication formants (Praat's "Create KlattGrid" takes 0 for any number of formants): the group is
        # there, it holds no tracks
        if rng.random() < 0.7:
            spec["fric"], spec["fric_bw"] = [], []
        else:
            spec["oral"], spec["oral_bw"] = [], []
        REC.cls("C19:kg:group-without-sub-tiers")
    if rng.random() < 0.25:
        # formant tracks that do not all cover the whole grid (a track that starts later or ends earlier); the first track of a
        # group keeps the grid's span, so the group's own span - the union of its tracks - is the one written in the file
        spec["spans"] = {}
        for key in ("oral", "oral_bw", "fric", "fric_bw"):
            spans = [None]
            for k in range(1, len(spec[key])):
                d = rng.choice([0.125, 0.25])
                span = rng.choice([None, (lo + d, hi), (lo, hi - d), (lo + d, hi - d)])
                spans.append(span)
                if span:
                    spec[key][k] = rand_points(rng, span[1], 4, span[0])
            spec["spans"][key] = spans
        REC.cls("C19:kg:sub-tier-spans-differ")
    return spec


def workload(tier, rng, shard, nshards, work):
    with contextlib.redirect_stdout(io.StringIO()):
        _workload(tier, rng, shard, nshards, work)


def _workload(tier, rng, shard, nshards, work):
    from praatio import data_points, klattgrid
    from praatio.data_classes.data_point import PointObject1D, PointObject2D

    repo = os.environ.get("PRAATIO_REPO", "/repo")
    ref = os.path.join(repo, "tests", "files", "bobby.KlattGrid")
    if os.path.exists(ref) and (shard < 2 or tier == "thorough"):
        _current.update(classes=["C19:reference-file", "C19:praat-style-trailing-blank"], sig=("ref",))
        kg = call(klattgrid.openKlattgrid, ref)
        if kg is not None:
            names = sorted(FUNCS)
            for j in range(2 if tier == "quick" else 6):
                fname = names[(shard * 3 + j) % len(names)]
                container, inter = rng.choice([("oral_formants", "formants"), ("oral_formants", "bandwidths"), ("frication_formants", "formants")])
                _current.update(classes=["C19:praatio-style-no-trailing-blank"], sig=("ref-mod", fname))
                if inter == "bandwidths" and fname in ("const50", "const5", "const0", "int(v)"):
                    REC.cls("C19:modify-last-subtier-with-short-integer")
                back = modify(kg, container, inter, fname, FUNCS[fname], work, j, inter == "bandwidths")
                if back is not None:
                    kg = back
    n = (300 if tier == "quick" else 10000) // nshards
    for k in range(n):
        spec = rand_spec(rng)
        blank = k % 2 == 0
        style = rng.choice(["plain", "plain", "exp"])
        text = K.write_klattgrid(spec, blank, style)
        if k % 7 == 3:
            text = text.rstrip()  # no final line break (and no trailing blanks)
            REC.cls("C19:kg:no-final-line-break")
        fn = os.path.join(str(work), "syn%d.KlattGrid" % (k % 3))
        if k % 11 == 5:
            # Praat's "text writing" preference set to UTF-16: the file starts with a byte order mark, of either byte order (the
            # opener reads UTF-16 first and falls back to UTF-8)
            bo = rng.choice(["le", "be"])
            with open(fn, "wb") as fd:
                fd.write((b"\xff\xfe" if bo == "le" else b"\xfe\xff") + text.encode("utf-16-" + bo))
            REC.cls("C19:kg:utf-16-" + bo)
        else:
            with open(fn, "w", encoding="utf-8") as fd:
                fd.write(text)
        nform = len(spec["oral"])
        _current.update(classes=["C19:praat-style-trailing-blank" if blank else "C19:praatio-style-no-trailing-blank"],
                        sig=("syn", blank, style, nform, len(spec["fric"]), tuple(min(len(p), 3) for p in spec["oral"] + spec["oral_bw"])))
        kg = call(klattgrid.openKlattgrid, fn)
        if kg is None:
            continue
        out = os.path.join(str(work), "out%d.KlattGrid" % (k % 3))
        ins = None
        if k % 4 == 1:
            # a sub-tier added through the API at a position other than the end: the hierarchy in memory is what has to be written
            ins = [rng.choice(["oral_formants", "frication_formants"]), rng.choice(["formants", "bandwidths"]), k, rng.randrange(0, 12)]
            insert_subtier(kg, ins)
        saved = call(lambda: (kg.save(out), True)[1])
        _current["inserted"] = None
        if saved:
            _current.update(classes=["C19:praatio-style-no-trailing-blank"], sig=("resaved", nform))
            kg2 = call(klattgrid.openKlattgrid, out)
            if kg2 is not None:
                a, b = kg_snapshot(kg), kg_snapshot(kg2)
                why = stream_diff(flatten(b), flatten(a))
                if why:
                    REC.violation(PROP, "kg.reopen", "open;save;open", {"call": "kg.reopen", "file": text, "ins": ins}, "second open (left) differs from the first (right): %s" % why, ("reopen", nform), {"op": "kg.reopen"})
                else:
                    REC.held("kg.reopen", ("reopen", blank, nform), None, None)
                # unmodified grid: saving again reproduces the text
                out2 = os.path.join(str(work), "out_b.KlattGrid")
                if call(lambda: (kg2.save(out2), True)[1]) and open(out, "rb").read() != open(out2, "rb").read():
                    REC.violation(PROP, "kg.reopen", "save;open;save", {"call": "kg.reopen", "file": text, "ins": ins}, "re-saving the unmodified reopened grid changed the text", ("resave",), {"op": "kg.resave"})
                kg = kg2
        fname = rng.choice(sorted(FUNCS) + ["x1.0625+default-arg"] * 2)
        container, inter = rng.choice([("oral_formants", "formants"), ("oral_formants", "bandwidths"), ("oral_formants", "bandwidths"), ("frication_formants", "formants"),
                                       ("frication_formants", "bandwidths"), ("frication_formants", "bandwidths"),
                                       ("nasal_formants", "formants"), ("delta_formants", "formants"), ("frication_formants", "frication_formants_amplitudes"),
                                       ("nasal_antiformants", "oral_formants_amplitudes"), ("nasal_antiformants", "nasal_formants_amplitudes"),
                                       ("tracheal_antiformants", "tracheal_formants_amplitudes"), ("nasal_antiformants", "formants")])
        if "amplitudes" in inter:
            REC.cls("C19:modify-amplitudes-tier")
        last_sub = inter == "bandwidths"
        if last_sub and fname in ("const50", "const5", "const0", "int(v)", "const7.0") and any(spec["oral_bw"][-1:] if container == "oral_formants" else spec["fric_bw"][-1:]):
            REC.cls("C19:modify-last-subtier-with-short-integer")
        _current.update(classes=["C19:praatio-style-no-trailing-blank"], sig=("mod", fname, container, inter))
        back = modify(kg, container, inter, fname, FUNCS[fname], work, k, last_sub)
        if back is not None and k % 2 == 0:
            # the grid has been saved before: change values again, this time through the sub-tiers' own modifyValues, and save again
            REC.cls("C19:modify-directly-after-a-save")
            f2 = rng.choice(["x1.2", "const7.0", "neg", "x10", "5to7", "5to7"])
            c2, i2 = rng.choice([("oral_formants", "formants"), ("oral_formants", "bandwidths"), ("frication_formants", "formants")])
            # (every other time the second save goes to the file the first save wrote - same name, and with "5to7" the same size)
            modify(kg, c2, i2, f2, FUNCS[f2], work, k + (k // 2) % 2, i2 == "bandwidths", direct=True)
        if k % 3 == 0:
            # the files read at the start of this round are still as they were: opening them again - after the grids read from them
            # have been edited in memory - gives what the files say
            REC.cls("C19:kg:same-file-opened-again-after-edits")
            _current.update(classes=["C19:praat-style-trailing-blank" if blank else "C19:praatio-style-no-trailing-blank"], sig=("syn-again", blank, style, nform))
            call(klattgrid.openKlattgrid, fn)
            if saved:
                _current.update(classes=["C19:praatio-style-no-trailing-blank"], sig=("resaved-again", nform))
                call(klattgrid.openKlattgrid, out)
    m = (3000 if tier == "quick" else 100000) // nshards
    for k in range(m):
        klass = rng.choice(["PointProcess", "PitchTier", "DurationTier"])
        hi = rng.choice([1.0, 1.8696875, 2.5, 100.0, 0.5])
        lo = rng.choice([0, 0, 0.0, 0.25])
        npts = rng.choice([0, 0, 1, 2, 3, 5, 9])
        ts = sorted({rng.choice([rng.uniform(lo, hi), lo + rng.randrange(0, 1000) / 1000 * (hi - lo), float(rng.randrange(int(lo) + 1, int(hi) + 1)) if hi >= 2 else rng.uniform(lo, hi), 5e-05 + lo]) for _ in range(npts)})
        pts = [(t,) for t in ts] if klass == "PointProcess" else [(t, rand_value(rng)) for t in ts]
        if klass != "PointProcess" and pts and k % 9 == 0:
            # a step: two values at one time, the second one smaller (the order in the file is the order of the object)
            j = rng.randrange(len(pts))
            pts[j:j + 1] = [(pts[j][0], 210.0), (pts[j][0], 95.5)]
            REC.cls("C19:po:two-values-at-one-time")
        style = rng.choice(["plain", "plain", "exp"])
        opener = data_points.open1DPointObject if klass == "PointProcess" else data_points.open2DPointObject
        objs = {}
        for long_form in (True, False):
            text = K.write_point_object(klass, lo, hi, pts, long_form, style, rng.random() < 0.5)
            if rng.random() < 0.15:
                text = text.rstrip("\n")  # the last line of a text file need not end in a line break
                REC.cls("C19:po:no-final-line-break")
            fn = os.path.join(str(work), "po%d.%s" % (k % 3, klass))
            with open(fn, "w", encoding="utf-8") as fd:
                fd.write(text)
            objs[long_form] = call(opener, fn)
        if objs[True] is not None and objs[False] is not None:
            REC.cls("C19:po:long-short-equal")
            if not (objs[True] == objs[False]) or po_snapshot(objs[True]) != po_snapshot(objs[False]):
                REC.violation(PROP, "po.open", "long-vs-short", {"call": "po.lvs", "klass": klass, "lo": lo, "hi": hi, "pts": pts},
                              "long and short encodings of the same %s open to different objects: %r vs %r" % (klass, po_snapshot(objs[True]), po_snapshot(objs[False])), ("lvs", klass), {"op": "po.lvs"})
        # save -> open of an object built through the public constructor
        rows_as = ("tuple", "list", "list", "tuple")[k % 4]  # the caller's rows: tuples, or lists it keeps using afterwards
        rows = [list(p) for p in pts] if rows_as == "list" else list(pts)
        po_roundtrip(klass, lo, hi, rows, rows_as, opener, work)


def po_roundtrip(klass, lo, hi, rows, rows_as, opener, work):
    from praatio.data_classes.data_point import PointObject1D, PointObject2D

    case = {"call": "po.rt", "klass": klass, "lo": lo, "hi": hi, "rows": [list(r) for r in rows], "rows_as": rows_as}
    sig = ("po.rt", klass, rows_as, min(len(rows), 4))
    mech = {"op": "po.rt", "rows_as": rows_as}
    try:
        po = (PointObject1D if klass == "PointProcess" else PointObject2D)(rows, klass, lo, hi)
    except Exception:
        return
    held_before = po_snapshot(po)
    fn = os.path.join(str(work), "posave.%s" % klass)
    if not call(lambda: (po.save(fn), True)[1]):
        return
    back = call(opener, fn)
    if back is None:
        return
    why = None
    if po_snapshot(back) != held_before:
        why = "save then open gives %r, saved %r" % (po_snapshot(back), held_before)
    elif not (back == po) or not (po == back):
        why = "the object built from %s rows and the object read back from its own file hold the same class, span and numbers %r but do not compare equal" % (rows_as, held_before["points"][:4])
    elif rows_as == "list" and rows:
        # the caller goes on using its own rows
        rows[0][0] = rows[0][0] + 1000.0
        if po_snapshot(po) != held_before:
            why = "editing the caller's own row after construction changed the object: %r -> %r" % (held_before["points"][:3], po_snapshot(po)["points"][:3])
    if why:
        REC.violation(PROP, "po.save", "save;open", case, why, sig, mech)
    else:
        REC.held("po.save", sig if rows else None, "C19:po:rows-as-%s" % rows_as, None)


def replay(v, work):
    from praatio import data_points, klattgrid

    c = v["case"]
    if c["call"] == "po.rt" and "rows" in c:
        opener = data_points.open1DPointObject if c["klass"] == "PointProcess" else data_points.open2DPointObject
        rows = [list(r) if c["rows_as"] == "list" else tuple(r) for r in c["rows"]]
        with contextlib.redirect_stdout(io.StringIO()):
            po_roundtrip(c["klass"], c["lo"], c["hi"], rows, c["rows_as"], opener, work)
        return
    if c["call"] == "po.save" and c.get("object"):
        from praatio.data_classes.data_point import PointObject1D, PointObject2D

        o = c["object"]
        pts = [tuple(p) for p in o["points"]]
        klass = PointObject1D if o["class"] == "PointProcess" else PointObject2D
        with contextlib.redirect_stdout(io.StringIO()):
            try:
                obj = klass(pts, o["class"], o["min"], o["max"])
                obj.save(os.path.join(str(work), "replay_po.txt"))
            except Exception:
                pass
        return
    with contextlib.redirect_stdout(io.StringIO()):
        if c["call"] in ("kg.open", "kg.reopen") and (c.get("file") or c.get("file_zb64")):
            import base64
            import zlib

            fn = os.path.join(str(work), "replay.KlattGrid")
            text = c.get("file") or zlib.decompress(base64.b64decode(c["file_zb64"])).decode("utf-8")
            with open(fn, "w", encoding="utf-8") as fd:
                fd.write(text)
            kg = call(klattgrid.openKlattgrid, fn)
            if kg is not None and c["call"] == "kg.reopen":
                out = os.path.join(str(work), "replay_out.KlattGrid")
                if c.get("ins"):
                    insert_subtier(kg, c["ins"])
                call(kg.save, out)
                _current["inserted"] = None
                kg2 = call(klattgrid.openKlattgrid, out)
                if kg2 is not None:
                    why = stream_diff(flatten(kg_snapshot(kg2)), flatten(kg_snapshot(kg)))
                    if why:
                        REC.violation(PROP, "kg.reopen", "open;save;open", c, why, ("reopen",), {"op": "kg.reopen"})
        elif c["call"] == "po.open":
            fn = os.path.join(str(work), "replay.po")
            with open(fn, "w", encoding="utf-8") as fd:
                fd.write(c["file"])
            call(data_points.open1DPointObject if c["dim"] == 1 else data_points.open2DPointObject, fn)
        elif c["call"] == "po.lvs":
            for lf in (True, False):
                fn = os.path.join(str(work), "replay.po")
                with open(fn, "w", encoding="utf-8") as fd:
                    fd.write(K.write_point_object(c["klass"], c["lo"], c["hi"], [tuple(p) for p in c["pts"]], lf))
                call(data_points.open1DPointObject if c["klass"] == "PointProcess" else data_points.open2DPointObject, fn)
        elif c["call"] == "kg.subtier":
            from praatio.data_classes.klattgrid import KlattSubPointTier

            pts = zip(c["times"], c["values"]) if c["one_shot"] else list(zip(c["times"], c["values"]))
            sub = KlattSubPointTier("x [1]", pts, min(c["times"]), max(c["times"]))
            if [(float(t), float(v)) for t, v in sub.entries] != list(zip(c["times"], c["values"])):
                REC.violation(PROP, "kg.save", "KlattSubPointTier", c, "a sub-tier built from an iterable of points does not hold them", ("subtier-points",), {"op": "kg.subtier"})
            else:
                REC.held("kg.save", ("subtier-points",), None, None)
        elif c["call"] == "kg.save" and (c.get("snapshot") or c.get("snapshot_zb64")):
            call(rebuild_kg(c.get("snapshot") or _unpack(c["snapshot_zb64"]), c.get("inserted")).save, os.path.join(str(work), "replay_out.KlattGrid"))
        elif c["call"] == "kg.modify":
            grid = c.get("grid") or (_unpack(c["grid_zb64"]) if c.get("grid_zb64") else None)
            if grid is not None:
                with core.paused():
                    kg = rebuild_kg(grid)  # the grid as it was in memory, assembled through the API
            else:
                repo = os.environ.get("PRAATIO_REPO", "/repo")
                kg = call(klattgrid.openKlattgrid, os.path.join(repo, "tests", "files", "bobby.KlattGrid"))
            if kg is not None and c["func"] in FUNCS and c["container"] in kg.tierNames:
                modify(kg, c["container"], c["inter"], c["func"], FUNCS[c["func"]], work, 0, c["inter"] == "bandwidths", direct=bool(c.get("direct")))


CLASSIFIERS = {
    "long-form-point-object-with-zero-points": lambda v: v["mech"].get("op") == "po.open" and v["mech"].get("long") and v["mech"].get("npoints") == 0 and v["mech"].get("exc") in ("ValueError", "IndexError"),
}

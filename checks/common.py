"""Helpers shared by the per-property check modules."""
import contextlib

from vmon import snap, core
from vmon.core import REC, SKIP  # noqa
from models import tiers as M
from workloads import gen


def num(x):
    return isinstance(x, (int, float)) and not isinstance(x, bool) and x == x and abs(x) != float("inf")


_calls = [0]
_sigcache = {}


def _as_keywords(fn, a, kw):
    """the same call with its trailing positional arguments passed by name (every monitor reads arguments through ctx.arg,
    which serves both forms)"""
    import inspect

    key = getattr(fn, "__func__", fn)
    names = _sigcache.get(key)
    if names is None:
        try:
            ps = list(inspect.signature(fn).parameters.values())
            names = [p.name for p in ps] if all(p.kind == p.POSITIONAL_OR_KEYWORD for p in ps) else False
        except (TypeError, ValueError):
            names = False
        _sigcache[key] = names
    if not names or len(a) > len(names) or len(a) < 2:
        return a, kw
    keep = 1 + (_calls[0] // 9) % (len(a) - 1)  # at least the first argument stays positional
    extra = dict(zip(names[keep:len(a)], a[keep:]))
    if any(k in kw for k in extra):
        return a, kw
    return a[:keep], dict(kw, **extra)


_defcache = {}
_doc_defaults = []


class _Other:  # a default that is neither None nor a bool / number / string: never equal to an argument
    pass


def _documented_defaults():
    if not _doc_defaults:
        import json
        import os

        try:
            _doc_defaults.append(json.load(open(os.path.join(os.path.dirname(os.path.dirname(os.path.abspath(__file__))), "models", "api_defaults.json"))))
        except (OSError, ValueError):
            _doc_defaults.append({})
    return _doc_defaults[0]


def _drop_defaults(fn, a):
    """the same call without the trailing positional arguments that equal the parameter's documented default: the caller who does not
    name an option gets the default, whatever it is (the monitors judge against the documented one)"""
    import inspect

    key = getattr(fn, "__func__", fn)
    defs = _defcache.get(key)
    if defs is None:
        # the documented defaults are those of the pinned tree (models/api_defaults.json, tools/mkdefaults.py), not whatever the live
        # signature says today; bound methods: the table row includes self
        row = _documented_defaults().get("%s.%s" % (getattr(key, "__module__", "?"), getattr(key, "__qualname__", "?")))
        if row is not None:
            import inspect as _i0

            vals = [(_i0.Parameter.empty if "empty" in c else (c["v"] if "v" in c else _Other)) for c in row]
            if hasattr(fn, "__self__") and fn.__self__ is not None and not isinstance(fn.__self__, type(_i0)):
                vals = vals[1:]
            defs = _defcache[key] = vals
    if defs is None:
        try:
            ps = list(inspect.signature(fn).parameters.values())
            defs = [p.default for p in ps] if all(p.kind == p.POSITIONAL_OR_KEYWORD for p in ps) else False
        except (TypeError, ValueError):
            defs = False
        _defcache[key] = defs
    if not defs or len(a) > len(defs):
        return a
    a = list(a)
    import inspect as _i

    while a and defs[len(a) - 1] is not _i.Parameter.empty and type(a[-1]) is type(defs[len(a) - 1]) and a[-1] == defs[len(a) - 1]:
        a.pop()
    return tuple(a)


def fresh_strings(a):
    """the same arguments with every option-like string replaced by an equal string that is a different object (a mode name that
    came from a config file, JSON or argv is equal to the library's constant but not identical to it)"""
    return tuple((x + "_")[:-1] if isinstance(x, str) and 1 < len(x) <= 24 else x for x in a)


def call(fn, *a, **kw):
    """Drive a real call; the monitors judge it, the driver does not care.  Every seventh call leaves out trailing arguments that equal
    the documented default.  Every ninth call passes its trailing arguments by
    keyword instead of by position; every eleventh passes whole-number float arguments as int, every thirteenth passes its
    short string arguments as equal-but-not-identical objects."""
    _calls[0] += 1
    if _calls[0] % 7 == 0 and a and not kw:
        a = _drop_defaults(fn, a)
    if _calls[0] % 9 == 0 and a:
        a, kw = _as_keywords(fn, a, kw)
    elif _calls[0] % 13 == 0 and a:
        a = fresh_strings(a)
    elif _calls[0] % 11 == 0 and a:
        # whole-number times given as int rather than float (a caller writing crop(1, 2) instead of crop(1.0, 2.0))
        a = tuple(int(x) if type(x) is float and x == int(x) and abs(x) < 1e9 else x for x in a)
    try:
        return fn(*a, **kw)
    except Exception:
        return None


def ents_of(s):
    return [tuple(e) for e in s["entries"]]


def scale_of(s, *extra):
    return M.maxabs(s["min"], s["max"], [x for e in s["entries"] for x in e[:-1]], *extra)


def desc(result, exc):
    if exc is not None:
        return "%s(%s)" % (type(exc).__name__, str(exc)[:200])
    if snap.is_tier(result):
        return "a tier with entries %r" % (snap.tier_snap(result)["entries"],)
    return repr(result)[:200]


def check_result_tier(s, result, exp_entry_alts, exp_lo, exp_hi, scale, ulps=4):
    """Compare a returned tier with the model.  exp_entry_alts: list of acceptable
    entry lists.  Returns None if it agrees, else a message."""
    if not snap.is_tier(result):
        return "returned %r, not a tier" % (result,)
    r = snap.tier_snap(result)
    if r["t"] != s["t"]:
        return "result tier type %s, receiver %s" % (r["t"], s["t"])
    if r["name"] != s["name"]:
        return "result name %r, receiver %r" % (r["name"], s["name"])
    obs = [tuple(e) for e in r["entries"]]
    whys = []
    for exp in exp_entry_alts:
        why = M.entries_close(obs, exp, scale, ulps)
        if why is None:
            break
        whys.append(why)
    else:
        ok = False
        if s["t"] == "P" and any(len(exp) == len(obs) for exp in exp_entry_alts):
            # points that come to share a time (two times less than a rounding step apart land on one float) have no order of their own
            # left: the tier keeps them in label order; within each run of equal observed times the expectation is compared as a set
            for exp in exp_entry_alts:
                if len(exp) != len(obs):
                    continue
                exp2, i = list(exp), 0
                while i < len(obs):
                    j = i + 1
                    while j < len(obs) and obs[j][0] == obs[i][0]:
                        j += 1
                    if j - i > 1:
                        exp2[i:j] = sorted(exp2[i:j], key=lambda e: e[-1])
                        if [o[-1] for o in obs[i:j]] != [e[-1] for e in exp2[i:j]]:
                            exp2[i:j] = [next(e for e in exp2[i:j] if e[-1] == o[-1]) if any(e[-1] == o[-1] for e in exp2[i:j]) else exp2[i + k] for k, o in enumerate(obs[i:j])]
                    i = j
                if M.entries_close(obs, exp2, scale, ulps) is None:
                    ok = True
                    break
        if not ok:
            return "entries: %s; observed %r expected %r" % (whys[0], r["entries"], M.fmt_entries(exp_entry_alts[0]))
    if not M.num_close(r["min"], exp_lo, scale, ulps) or not M.num_close(r["max"], exp_hi, scale, ulps):
        return "span [%r, %r], expected [%s, %s]" % (r["min"], r["max"], M.fmt(exp_lo), M.fmt(exp_hi))
    return None


_made = [0]
_user_classes = {}


def user_tier_class(kind):
    """a user's own subclass of the library's tier class (no behaviour added): whatever holds for a tier holds for it"""
    if kind not in _user_classes:
        from praatio.data_classes.interval_tier import IntervalTier
        from praatio.data_classes.point_tier import PointTier

        base = IntervalTier if kind == "I" else PointTier
        _user_classes[kind] = type("User" + base.__name__, (base,), {"__doc__": "a subclass defined by the library's user"})
    return _user_classes[kind]


def make_tier(kind, name, ents, lo, hi):
    from praatio.data_classes.interval_tier import IntervalTier
    from praatio.data_classes.point_tier import PointTier

    _made[0] += 1
    if _made[0] % 17 == 0:
        return user_tier_class(kind)(name, ents, lo, hi)  # every 17th tier is an instance of a user-defined subclass
    tier = (IntervalTier if kind == "I" else PointTier)(name, ents, lo, hi)
    if _made[0] % 3 == 0:
        # entries come into a tier by two doors, the constructor and insertEntry: every third tier gets its non-ASCII entries
        # through the second one (taken out and put back in place), so that a tier's content does not depend on the door
        with core.paused():
            for e in ents:
                if isinstance(e[-1], str) and not e[-1].isascii():
                    try:
                        cur = [c for c in tier.entries if tuple(c[:-1]) == tuple(e[:-1])]
                        if len(cur) == 1:
                            tier.deleteEntry(cur[0])
                            tier.insertEntry(tuple(e))
                    except Exception:
                        return (IntervalTier if kind == "I" else PointTier)(name, ents, lo, hi)
    return tier


def rand_tier(rng, name="d", hi=5.0, nmax=7, pkind=0.25, labels=None, src=None, full_span=False, neg=0.0, ties=0.0):
    """(kind, entries, lo, hi, tier) on decimals; with probability *neg* the whole tier is moved to the left so that its span starts
    below zero (Praat allows negative times; praatio only clips at zero when time-shifting)."""
    if rng.random() >= pkind:
        kind = "I"
        ents = gen.rand_interval_entries(rng, nmax, hi, labels=labels, src=src)
    else:
        kind = "P"
        ents = gen.rand_point_entries(rng, nmax, hi, labels=labels, src=src, ties=ties)
    if full_span:
        lo, top = 0.0, hi
    else:
        lo, top = gen.span_for(rng, ents, hi, kind)
    if neg and rng.random() < neg:
        k = rng.choice([0.5, 2.0, 2.5, 7.0])
        ents = [tuple(x - k for x in e[:-1]) + (e[-1],) for e in ents]
        lo, top = lo - k, top - k
    t = make_tier(kind, name, ents, lo, top)
    if rng.random() < 0.08 and top - lo > 0.5:
        # the tier has a past: since it was built, entries were added to it and removed from it in place (inside its span).  The
        # operation under test works on the tier as it is now - whatever the constructor computed once may be out of date
        try:
            with core.paused():
                for _e in range(rng.randrange(1, 4)):
                    cur = list(t.entries)
                    if cur and rng.random() < 0.4:
                        t.deleteEntry(rng.choice(cur))
                    elif kind == "P":
                        t.insertEntry((round(rng.uniform(lo, top), 3), "added"), "replace", "silence")
                    else:
                        x0 = round(rng.uniform(lo, top - 0.3), 3)
                        t.insertEntry((x0, round(x0 + rng.choice([0.05, 0.25]), 3), "added"), "replace", "silence")
            if (t.minTimestamp, t.maxTimestamp) == (lo, top):
                ents = [tuple(e) for e in t.entries]
                REC.cls("tier-edited-in-place-since-it-was-built")
            else:
                t = make_tier(kind, name, ents, lo, top)
        except Exception:
            t = make_tier(kind, name, ents, lo, top)
    return kind, ents, lo, top, t


def rand_textgrid(rng, hi=5.0, ntiers=(1, 5), nmax=5, labels=None, variants=True):
    """A validate()-clean random textgrid on one decimal flavour; returns (tg, all boundaries as pseudo-entries)."""
    from praatio.data_classes.textgrid import Textgrid

    _, src = gen.rand_time_source(rng)
    allents = []
    r = rng.random() if variants else 1.0
    wider = r < 0.12  # the textgrid is wider than every tier
    tg = Textgrid(0.0, hi + 1.0) if wider else Textgrid()
    late = 0.22 <= r < 0.30  # the textgrid starts before every one of its tiers does
    if late:
        tg = Textgrid(0.0, hi + 0.5)
    # the time axis of the whole textgrid need not start at 0: an excerpt that keeps the recording's own times, or times before a
    # reference event (negative)
    s0 = rng.choice([0.5, 1.25, -2.0]) if (variants and 0.30 <= r < 0.42) else 0.0
    prev_points = []
    # tier names are free text: brackets, stars and question marks (units, speaker numbers) are characters like any other - also to
    # code that happens to look names up through patterns
    odd = rng.random() < 0.12
    for i in range(rng.randrange(*ntiers)):
        tname = "t%d" % i if not odd else ["f0 [Hz]", "speaker[1]", "a*b", "q?", "t[0-9]"][i % 5]
        kind, ents, lo, top, t = rand_tier(rng, tname, hi, nmax, 0.3, labels, src, full_span=True, ties=0.1)
        if s0:
            ents = [tuple(x + s0 for x in e[:-1]) + (e[-1],) for e in ents]
            t = make_tier(kind, tname, ents, s0, hi + s0)
        if kind == "P":
            if prev_points and rng.random() < 0.4:
                # two point tiers of one textgrid mark the same instants (a tone tier and a break-index tier, say)
                shared = rng.sample(prev_points, rng.randrange(1, len(prev_points) + 1))
                own = [e for e in ents if all(abs(e[0] - x) > 1e-6 for x in shared)]
                ents = sorted(own + [(x, rng.choice(labels or ["a", "b", "c"])) for x in shared])
                t = make_tier(kind, tname, ents, s0, hi + s0)
            prev_points = sorted({e[0] for e in ents} | set(prev_points))[:8]
        if late:
            ents = [tuple(x + 0.5 for x in e[:-1]) + (e[-1],) for e in ents]
            t = make_tier(kind, tname, ents, 0.5, hi + 0.5)
        tg.addTier(t, reportingMode="silence")
        allents.extend((e[0], e[-2], "") for e in ents)
    if 0.12 <= r < 0.22:  # one tier narrower than the textgrid
        kind, ents, lo, top, t = rand_tier(rng, "narrow", hi * 0.8, nmax, 0.3, labels, src, full_span=False)
        tg.addTier(t, rng.choice([None, 0]), reportingMode="silence")
        allents.extend((e[0], e[-2], "") for e in ents)
    if rng.random() < 0.06:
        refused_edits(tg, rng)  # (the textgrid has a past: edits that were refused and rolled back)
    return tg, allents


def bounds_of(s):
    b = set()
    for e in s["entries"]:
        b.add(e[0])
        if s["t"] == "I":
            b.add(e[1])
    return b


def receiver_changed(ctx, before, what="receiver"):
    """for operations documented to return a modified copy: the object the call was made on must be as it was (a later call on the
    same object would otherwise start from a state nobody asked for).  -> message or None"""
    obj = ctx.self_
    try:
        after = snap.tier_snap(obj) if snap.is_tier(obj) else (snap.tg_snap(obj) if snap.is_tg(obj) else None)
    except Exception:
        return None
    if after is None or after == before:
        return None
    return "the call changed its %s: %r -> %r" % (what, before, after)


@contextlib.contextmanager
def piece(name):
    """One self-contained piece of a workload.  A failure of a set-up step inside it (the library refusing to build an operand the
    driver needs, an operand that an earlier, unjudged call left unusable) gives up this piece only: the monitors go on observing
    the rest of the workload.  The shard is reported as driver_error all the same - unless a monitor found a violation, the run is
    INCONCLUSIVE, never held."""
    try:
        yield
    except (core.StepBudgetExceeded, KeyboardInterrupt, SystemExit, MemoryError):
        raise
    except Exception as e:
        import traceback

        REC.aborted.append("%s: %s" % (name, "".join(traceback.format_exception(e))[-1500:]))


def big_interval_entries(rng, n, hi=5.0, labels=("a", "b", "c")):
    """n intervals on decimal timestamps, some touching, some apart - a tier of realistic size (sizes just above 64 / 1024 are where
    a fast path for large inputs would begin)"""
    w = hi / (2.2 * n)
    pos, ents = 0.0, []
    for _k in range(n):
        if rng.random() < 0.3:
            pos = round(pos + w * rng.choice([0.5, 1.0]), 9)
        a = pos
        pos = round(pos + w * rng.choice([0.5, 1.0, 1.5]), 9)
        ents.append((a, pos, rng.choice(labels)))
    return ents


def refused_edits(tg, rng):
    """A few textgrid edits that the library must refuse (and roll back), made on *tg* right before the operation under test: a wider
    replacement under reportingMode='error', a rename to a name in use, an added tier whose name is taken.  Whatever they leave
    behind (a stale memo, a half-restored map) is part of the state the next call starts from."""
    names = list(tg.tierNames)
    if not names:
        return
    REC.cls("refused-textgrid-edits-before-the-call")
    n0 = rng.choice(names)
    t0 = tg.getTier(n0)
    for attempt in rng.sample(("replace-wider", "rename-clash", "add-clash", "replace-clash"), 2):
        try:
            if attempt == "replace-wider":
                tg.replaceTier(n0, t0.new(maxTimestamp=tg.maxTimestamp + 1.0), "error")
            elif attempt == "rename-clash" and len(names) > 1:
                tg.renameTier(n0, [x for x in names if x != n0][0])
            elif attempt == "add-clash":
                tg.addTier(t0.new(), reportingMode="silence")
            elif attempt == "replace-clash" and len(names) > 1:
                tg.replaceTier(n0, t0.new(name=[x for x in names if x != n0][0]), "silence")
        except Exception:
            pass


def renamed_elsewhere(tg, rng):
    """The caller put one of *tg*'s tier objects into a second textgrid as well (a selection for export) and renamed it THERE.  In
    *tg* nothing was renamed: its names, and the names its tiers carry, are what they were - that is the state the call under test
    starts from."""
    from praatio.data_classes.textgrid import Textgrid

    names = list(tg.tierNames)
    if not names:
        return
    try:
        with core.paused():
            other = Textgrid()
            t = tg.getTier(rng.choice(names))
            other.addTier(t, reportingMode="silence")
            other.renameTier(t.name, t.name + "_elsewhere")
        REC.cls("tier-shared-with-another-textgrid-and-renamed-there")
    except Exception:
        pass

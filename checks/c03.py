"""C03 - the reader returns exactly what a spec-conformant TextGrid file encodes."""
import contextlib
import glob
import io
import os

from vmon import core, snap
from vmon.core import REC, SKIP
from models import praat_text as PT
from workloads import tggen
from checks.common import call, desc
from checks import tgcommon as TC

PROP = "C03"
NSHARDS = {"quick": 8, "thorough": 16}
TIMEOUT = {"quick": 900, "thorough": 5400}
LAYOUTS = ("long", "short", "elan-long", "json", "textgrid_json")
ENCODINGS = ("utf-8", "utf-8-sig", "utf-16-le-bom", "utf-16-be-bom")
RULE = (
    "case = one monitored textgrid.openTextgrid call; the bytes of the file it reads are decoded by the independent spec reader and "
    "the returned Textgrid is compared with that decoding (a differential on every open, whatever produced the file); files are "
    "produced by the independent writer from seeded tier data (labels with quotes/newlines/Unicode/keywords, times as plain decimals, "
    "integers, exponent notation, '-0' starts, empty tiers, blank-labelled entries, duplicate names) x layout {long, short, elan-long, "
    "json, textgrid_json} x encoding {utf-8, utf-8-sig, utf-16-le/be with BOM} x {LF, CRLF} x includeEmptyIntervals x "
    "duplicateNamesMode, plus every TextGrid fixture shipped with the repository. distinct = (layout, encoding, newline, flags, "
    "number styles, label classes, tier-type sequence); non-trivial = at least one entry."
)
ASSUMPTIONS = [
    "the independent writer/reader pair of models/praat_text.py defines what a file encodes; a timestamp is the float its decimal text denotes",
    "generated labels are trimmed (praatio normalises surrounding whitespace by design); the rename suffix is not pinned; a UTF-8 BOM is only used with the text layouts (RFC 8259 forbids it in JSON) (D5)",
    "files whose labels/names contain the tokens praatio's text readers split on are a recorded finding",
]
EXHAUSTIVE = {"quick": False, "thorough": False}


def floors(tier):
    f = {"evals": {"open": 8000}, "classes": {}}
    for lay in LAYOUTS:
        for enc in ENCODINGS:
            if enc == "utf-8-sig" and lay in ("json", "textgrid_json"):
                continue
            for nl in ("LF", "CRLF"):
                f["classes"]["C03:%s:%s:%s" % (lay, enc, nl)] = 20
    for c in ("duplicate-names:error", "duplicate-names:rename", "drop-empty", "keep-empty", "exponent-number", "negzero", "empty-tier",
              "quote", "newline-in-label", "fixture-file", "long-short-same-data", "no-final-line-break"):
        f["classes"]["C03:" + c] = 20
    return f


def decode_bytes(raw):
    if raw[:2] in (b"\xff\xfe", b"\xfe\xff"):
        return raw.decode("utf-16"), "utf-16"
    if raw[:3] == b"\xef\xbb\xbf":
        return raw[3:].decode("utf-8"), "utf-8-sig"
    return raw.decode("utf-8"), "utf-8"


def spec_decode(raw):
    text, enc = decode_bytes(raw)
    text = text.replace("\r\n", "\n")
    if text.lstrip()[:1] == "{":
        return PT.read_json(text), ("json", enc), text
    return PT.read_textgrid(text), ("text", enc), text


def _open_pre(ctx):
    fn = ctx.arg(0, "fnFullPath")
    keep = ctx.arg(1, "includeEmptyIntervals")
    dup = ctx.arg(3, "duplicateNamesMode", "error")
    rm = ctx.arg(2, "reportingMode", "warning")
    if not isinstance(keep, bool) or dup not in ("error", "rename") or rm not in ("silence", "warning", "error"):
        return SKIP
    try:
        raw = open(fn, "rb").read()
    except OSError:
        return SKIP
    try:
        doc, kind, text = spec_decode(raw)
    except (PT.SpecError, UnicodeError) as e:
        REC.skip("open", "file-not-spec-conformant")
        return SKIP
    return (doc, kind, keep, dup, raw, rm)


def judge_open(doc, keep, dup, result, exc):
    names = [t["name"] for t in doc["tiers"]]
    has_dup = len(set(names)) != len(names)
    if has_dup and dup == "error":
        if exc is None or type(exc).__name__ != "DuplicateTierName":
            return False, "duplicate tier names with duplicateNamesMode='error' must raise DuplicateTierName, got %s" % desc(result, exc)
        return True, ""
    if exc is not None:
        return False, "opening a spec-conformant file raised %s: %s" % (type(exc).__name__, str(exc)[:200])
    if not snap.is_tg(result):
        return False, "returned %r" % (result,)
    got = snap.tg_snap(result)
    if len(got["tiers"]) != len(doc["tiers"]):
        return False, "%d tiers returned, the file encodes %d (%r vs %r)" % (len(got["tiers"]), len(doc["tiers"]), got["keys"], names)
    if got["keys"] != [t["name"] for t in got["tiers"]] or len(set(got["keys"])) != len(got["keys"]):
        return False, "returned tier names are not unique / inconsistent: %r" % (got["keys"],)
    seen = set()
    for tfile, tgot in zip(doc["tiers"], got["tiers"]):
        n = tfile["name"]
        # names are assigned in file order: a tier keeps its name unless an earlier tier already *ended up* with it
        # (a literal 'a_2' after a duplicate that was renamed to 'a_2' may therefore be renamed too)
        if n not in seen:
            if tgot["name"] != n:
                return False, "tier name %r, the file says %r and no earlier tier uses that name" % (tgot["name"], n)
        elif tgot["name"] == n:
            return False, "duplicate of %r was not renamed" % (n,)
        seen.add(tgot["name"])
        kind = "I" if tfile["class"] == "IntervalTier" else "P"
        if tgot["t"] != kind:
            return False, "tier %r type %s, the file says %s" % (n, tgot["t"], tfile["class"])
        # tiers store labels without surrounding white space (C05), so that is how the file's labels come back; "empty" is judged on
        # the label as returned
        exp = [tuple(e[:-1]) + (e[-1].strip(),) for e in tfile["entries"]]
        if not keep:
            exp = [e for e in exp if e[-1] != ""]
        obs = [tuple(e) for e in tgot["entries"]]
        if len(obs) != len(exp):
            return False, "tier %r: %d entries returned, expected %d (includeEmptyIntervals=%s): %r vs %r" % (n, len(obs), len(exp), keep, obs[:5], exp[:5])
        for i, (a, b) in enumerate(zip(exp, obs)):
            if a[-1] != b[-1]:
                return False, "tier %r entry %d: label %r, the file encodes %r" % (n, i, b[-1], a[-1])
            if tuple(float(x) for x in a[:-1]) != tuple(float(x) for x in b[:-1]):
                return False, "tier %r entry %d: times %r, the file encodes %r" % (n, i, b[:-1], a[:-1])
        lo = min([tfile["xmin"]] + [e[0] for e in exp])
        hi = max([tfile["xmax"]] + [e[-2] for e in exp])
        if tgot["min"] != lo or tgot["max"] != hi:
            return False, "tier %r span [%r, %r], the file encodes [%r, %r]" % (n, tgot["min"], tgot["max"], lo, hi)
    lo = min([doc["xmin"]] + [t["min"] for t in got["tiers"]])
    hi = max([doc["xmax"]] + [t["max"] for t in got["tiers"]])
    if got["min"] != lo or got["max"] != hi:
        return False, "textgrid span [%r, %r], the file encodes [%r, %r]" % (got["min"], got["max"], lo, hi)
    return True, ""


_current = {"classes": None, "sig": None}


def _open_post(ctx):
    doc, kind, keep, dup, raw, rm = ctx.pre
    ok, msg = judge_open(doc, keep, dup, ctx.result, ctx.exc)
    REC.outcome("open", ctx.exc)
    layout = None
    if kind[0] == "text":
        try:
            import re as _re

            layout = "long" if _re.search(r"(?m)^\s*tiers\?\s*<exists>", decode_bytes(raw)[0]) else "short"
        except Exception:
            layout = None
    data_kw = tggen.data_splits_reader({"tiers": [{"t": "I" if t["class"] == "IntervalTier" else "P", "name": t["name"], "entries": t["entries"]} for t in doc["tiers"]]}, layout)
    classes = list(_current["classes"] or [])
    names = [t["name"] for t in doc["tiers"]]
    if len(set(names)) != len(names):
        classes.append("C03:duplicate-names:%s" % dup)
    classes.append("C03:keep-empty" if keep else "C03:drop-empty")
    sig = _current["sig"] or (kind, keep, dup, tuple(t["class"] for t in doc["tiers"]), tuple(len(t["entries"]) for t in doc["tiers"]))
    import base64

    case = {"call": "open", "file_b64": base64.b64encode(raw).decode("ascii") if len(raw) < 20000 else None, "ext": (os.path.basename(str(ctx.arg(0, "fnFullPath"))).split(".", 1) + [""])[1], "keep": keep, "dup": dup, "rmode": rm}
    mech = {"layout_kind": kind[0], "text_format": kind[0] == "text", "keyword": data_kw, "exc": type(ctx.exc).__name__ if ctx.exc else None}
    if ok:
        REC.held("open", sig if any(t["entries"] for t in doc["tiers"]) else None, classes, case)
    else:
        REC.violation(PROP, "open", "openTextgrid", case, msg, sig, mech)
    _current["classes"] = None
    _current["sig"] = None


_installed = False


def install():
    global _installed
    if _installed:
        return
    _installed = True
    from praatio import textgrid as tgmod

    core.attach(tgmod, "openTextgrid", "open", _open_pre, _open_post, method=False)


def render(spec, layout, rng, style_mode):
    """-> (text, styles used)"""
    nnum = 2 + sum(2 + len(t["entries"]) * (2 if t["class"] == "IntervalTier" else 1) for t in spec["tiers"])
    if style_mode == "mixed":
        styles = [rng.choice(("plain", "plain", "int", "exp", "EXP", "negzero")) for _ in range(nnum)]
    else:
        styles = [style_mode] * nnum
    if layout == "long":
        return PT.write_long(spec, styles=styles), styles
    if layout == "elan-long":
        return PT.write_long(spec, elan=True, styles=styles), styles
    if layout == "short":
        return PT.write_short(spec, styles=styles), styles
    return PT.write_json(spec, layout == "json"), ["json"]


def workload(tier, rng, shard, nshards, work):
    from praatio import textgrid as tgmod

    with contextlib.redirect_stdout(io.StringIO()):
        n = (1500 if tier == "quick" else 20000) // nshards
        variants = [(lay, enc, nl) for lay in LAYOUTS for enc in ENCODINGS for nl in ("LF", "CRLF")
                    if not (enc == "utf-8-sig" and lay in ("json", "textgrid_json"))]
        per_data = 6 if tier == "quick" else len(variants)
        vi = shard * 7
        for i in range(n):
            data, _cl = tggen.gen_textgrid(rng, keywords=(i % 6 == 5), min_gap=0, scale_class=rng.choice(["normal", "normal", "tiny", "big", "epoch", "negative"]),
                                           full_span=rng.choice([True, True, None]), ws_labels=True)
            spec = tggen.to_spec(data)
            dup = i % 7 == 3 and len(spec["tiers"]) >= 2
            if dup:
                base = spec["tiers"][0]["name"]
                spec["tiers"][-1]["name"] = base
                if len(spec["tiers"]) >= 3:
                    r = rng.random()
                    if r < 0.35:
                        spec["tiers"][1]["name"] = base
                    elif r < 0.7:
                        # a name a renaming scheme is likely to generate is already taken literally (before or after the duplicate)
                        spec["tiers"][1]["name"] = base + rng.choice(["_2", "_1", "_3", "2", " (2)", "_"])
                        if rng.random() < 0.5:
                            spec["tiers"][1], spec["tiers"][-1] = spec["tiers"][-1], spec["tiers"][1]
            lcs = tggen.label_classes(data)
            base_classes = []
            if "quote" in lcs:
                base_classes.append("C03:quote")
            if "newline" in lcs:
                base_classes.append("C03:newline-in-label")
            if any(not t["entries"] for t in spec["tiers"]):
                base_classes.append("C03:empty-tier")
            chosen = variants if per_data >= len(variants) else [variants[(vi + j * 5) % len(variants)] for j in range(per_data)]
            vi += 1
            results = {}
            for lay, enc, nl in chosen:
                if dup and lay == "json":
                    continue
                text, styles = render(spec, lay, rng, rng.choice(("mixed", "mixed", "plain", "exp")))
                if lay in ("long", "short", "elan-long") and rng.random() < 0.15:
                    text = text.rstrip("\n")  # the last line of a text file need not end in a line break
                    extra_cls = ["C03:no-final-line-break"]
                else:
                    extra_cls = []
                if lay == "short" and rng.random() < 0.25:
                    # free-form text: blanks before a line break mean nothing (outside a quoted text, that is)
                    rows, quotes = [], 0
                    for row in text.split("\n"):
                        quotes += row.count('"')
                        rows.append(row + (rng.choice([" ", "\t", "  ", ""]) if quotes % 2 == 0 and row else ""))
                    text = "\n".join(rows)
                    extra_cls = extra_cls + ["C03:short:blank-before-line-break"]
                if nl == "CRLF":
                    text = text.replace("\n", "\r\n")
                # (what a file holds is decided by its content: a JSON textgrid may be called x.TextGrid, a text one x.txt)
                ext = ("json" if "json" in lay else "TextGrid") if rng.random() < 0.8 else rng.choice(["TextGrid", "txt", "json", "JSON", "tg.bak", "textgrid"])
                fn = os.path.join(str(work), "f%d.%s" % (i % 5, ext))
                if ext not in ("json", "TextGrid"):
                    extra_cls = extra_cls + ["C03:unusual-file-extension"]
                with open(fn, "wb") as fd:
                    fd.write(PT.encode(text, enc))
                keep = rng.random() < 0.5
                dmode = rng.choice(("error", "rename"))
                classes = base_classes + ["C03:%s:%s:%s" % (lay, enc, nl)] + extra_cls
                if any(s in ("exp", "EXP") for s in styles):
                    classes.append("C03:exponent-number")
                if "negzero" in styles and "-0" in text:
                    classes.append("C03:negzero")
                _current["classes"] = classes
                _current["sig"] = (lay, enc, nl, keep, dmode if dup else "-", tuple(sorted(set(styles))), tuple(sorted(lcs)), tuple(t["class"][0] for t in spec["tiers"]))
                res = call(tgmod.openTextgrid, fn, keep, rng.choice(("silence", "silence", "warning", "error")), dmode)
                if res is not None and lay in ("long", "short", "elan-long") and not dup:
                    results.setdefault(keep, []).append((lay, snap.tg_snap(res)))
            # long and short encodings of the same data open to equal Textgrids
            for keep, lst in results.items():
                lays = {l for l, _ in lst}
                if len(lays) >= 2:
                    REC.cls("C03:long-short-same-data")
                    first = lst[0][1]
                    for lay, s in lst[1:]:
                        if first != s:  # == on floats: -0.0 and 0.0 are the same time
                            REC.violation(PROP, "open", "long-vs-short", {"call": "long-vs-short", "spec": {"xmin": spec["xmin"], "xmax": spec["xmax"], "tiers": [dict(t, entries=[list(e) for e in t["entries"]]) for t in spec["tiers"]]}},
                                          "%s and %s encodings of the same data open to different Textgrids: %r vs %r" % (lst[0][0], lay, first, s), ("lvs",),
                                          {"text_format": True, "keyword": tggen.data_splits_reader(data)})
                            break
        if shard == 0 or tier == "thorough":
            repo = os.environ.get("PRAATIO_REPO", "/repo")
            files = sorted(glob.glob(os.path.join(repo, "tests", "files", "*.TextGrid")) + glob.glob(os.path.join(repo, "examples", "files", "*.TextGrid")))
            for f in files:
                for keep in (True, False):
                    _current["classes"] = ["C03:fixture-file"]
                    call(tgmod.openTextgrid, f, keep, "silence", "rename")


def replay(v, work):
    import base64
    from praatio import textgrid as tgmod

    c = v["case"]
    if c.get("call") == "long-vs-short":
        # the same data written in the long and in the short layout (plain number style) opens to equal Textgrids
        spec = dict(c["spec"], tiers=[dict(t, entries=[tuple(e) for e in t["entries"]]) for t in c["spec"]["tiers"]])
        with contextlib.redirect_stdout(io.StringIO()):
            for keep in (True, False):
                got = []
                for lay, text in (("long", PT.write_long(spec)), ("short", PT.write_short(spec))):
                    fn = os.path.join(str(work), "replay_%s.TextGrid" % lay)
                    with open(fn, "wb") as fd:
                        fd.write(PT.encode(text, "utf-8"))
                    res = call(tgmod.openTextgrid, fn, keep, "silence", "error")
                    got.append(snap.tg_snap(res) if res is not None else None)
                if got[0] is not None and got[1] is not None:
                    if got[0] != got[1]:
                        REC.violation(PROP, "open", "long-vs-short", c, "long and short encodings of the same data open to different Textgrids: %r vs %r" % (got[0], got[1]), ("lvs",), v.get("mech") or {})
                    else:
                        REC.held("open", ("lvs", keep), None, None)
        return
    if c.get("file_b64") is None:
        return
    raw = base64.b64decode(c["file_b64"])
    fn = os.path.join(str(work), ("replay." + c["ext"]) if c.get("ext") else ("replay.json" if raw.lstrip()[:1] == b"{" else "replay.TextGrid"))
    with open(fn, "wb") as fd:
        fd.write(raw)
    with contextlib.redirect_stdout(io.StringIO()):
        call(tgmod.openTextgrid, fn, c["keep"], c.get("rmode", "silence"), c["dup"])


CLASSIFIERS = {
    "text-reader-splits-on-keywords-inside-labels": lambda v: v["mech"].get("text_format") and v["mech"].get("keyword"),
}

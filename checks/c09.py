"""C09 - time shifting and concatenation move every entry by exactly the stated amount."""
import math

from vmon import core, snap
from vmon.core import REC, SKIP
from models import tiers as M
from workloads import gen
from checks.common import num, call, ents_of, scale_of, desc, check_result_tier, make_tier, rand_tier, receiver_changed, refused_edits, renamed_elsewhere, piece

PROP = "C09"
NSHARDS = {"quick": 8, "thorough": 16}
TIMEOUT = {"quick": 600, "thorough": 3600}
RMODES = ("silence", "warning", "error")
RULE = (
    "case = one monitored editTimestamps / appendTier / appendTextgrid call (tier or Textgrid level) on well-formed "
    "receivers, or one driven +x;-x round trip; generated from dyadic-grid and seeded decimal tiers including empty tiers, "
    "offsets chosen to clip none / some / all entries at 0 and to leave or stay inside the span, 3 reporting modes, "
    "textgrid pairs with equal / overlapping / disjoint name sets and empty tiers. distinct = (operation, kind, mode, "
    "clip class, leave-span class, number of entries, order type of -offset against the boundaries); non-trivial = any entry present."
)
ASSUMPTIONS = [
    "oracle: models/tiers.py shift/append on fractions.Fraction; moved values within 4 ulp of the largest operand, A's entries bit-for-bit",
    "reporting: decided on exact arithmetic; when a moved boundary is within 4 ulp of the span edge either behaviour is accepted",
    "Textgrid-level calls are judged for textgrids whose tiers share the textgrid span",
]
EXHAUSTIVE = {"quick": False, "thorough": False}


def floors(tier):
    f = _floors(tier)
    f["classes"]["C09:tiny-offset-at-span-edge"] = 100
    return f


def _floors(tier):
    f = {"evals": {"shift.interval": 5000, "shift.point": 2000, "shift.textgrid": 300, "append.tier": 2000,
                   "append.textgrid": 500, "shift.roundtrip": 1000}, "classes": {}}
    for k in ("I", "P"):
        for clip in ("none", "some", "all"):
            for m in RMODES:
                f["classes"]["C09:%s:clip-%s:%s" % (k, clip, m)] = 20
        f["classes"]["C09:%s:empty-input" % k] = 20
    for m in RMODES:
        f["classes"]["C09:leaves-span:%s" % m] = 100
        f["classes"]["C09:stays-in-span:%s" % m] = 100
    for c in ("names-equal", "names-overlap", "names-disjoint", "only-matching", "all-names", "empty-tier-in-B", "type-mismatch", "A-has-narrower-tier"):
        f["classes"]["C09:append:%s" % c] = 20
    return f


def leave_class(kind, ents, lo, hi, off, scale):
    """'yes' / 'no' / 'band': does some moved (unclipped) boundary leave [lo, hi]?  Decided on exact
    arithmetic; a boundary that leaves by less than 4 ulp may round back onto the edge -> 'band'."""
    tol = M.F(math.ulp(scale)) * 4
    flo, fhi, fo = M.F(lo), M.F(hi), M.F(off)
    res = "no"
    for e in ents:
        unders = (e[0],)
        overs = (e[1],) if kind == "I" else (e[0],)
        for v in unders:
            nv = M.F(v) + fo
            if nv < flo - tol:
                return "yes"
            if nv < flo:
                res = "band"
        for v in overs:
            nv = M.F(v) + fo
            if nv > fhi + tol:
                return "yes"
            if nv > fhi:
                res = "band"
    return res


def judge_shift(s, off, mode, result, exc, stdout):
    kind = s["t"]
    ents = ents_of(s)
    classes = []
    exp, lo, hi, _left = M.shift(kind, ents, s["min"], s["max"], off)
    if not M.representable(exp):
        return None, "unrepresentable-result", classes
    scale = scale_of(s, off, s["max"] + off)
    lc = leave_class(kind, ents, s["min"], s["max"], off, scale)
    if not ents:
        classes.append("C09:%s:empty-input" % kind)
    else:
        clip = "none" if len(exp) == len(ents) and all(M.F(x[0]) + M.F(off) >= 0 for x in ents) else ("all" if not exp else "some")
        classes.append("C09:%s:clip-%s:%s" % (kind, clip, mode))
    if lc == "yes":
        classes.append("C09:leaves-span:%s" % mode)
    elif lc == "no":
        classes.append("C09:stays-in-span:%s" % mode)
    if lc == "yes" and mode == "error":
        if exc is None or type(exc).__name__ != "OutOfBounds":
            return False, "an entry leaves the old span under reportingMode='error': expected OutOfBounds, got %s" % desc(result, exc), classes
        return True, "", classes
    if lc == "band" and mode == "error" and exc is not None and type(exc).__name__ == "OutOfBounds":
        return True, "", classes
    if exc is not None:
        return False, "editTimestamps(%r, %r) raised %s: %s" % (off, mode, type(exc).__name__, exc), classes
    alts = [exp]
    if kind == "P":
        # a point tier keeps points that share a time - also: that come to share one after rounding - in label order (D12d)
        alts.append(sorted(exp, key=lambda e: (float(e[0]), e[1])))
    why = check_result_tier(s, result, alts, lo, hi, scale)
    if why:
        return False, why, classes
    if mode == "silence" and stdout:
        return False, "reportingMode='silence' printed %r" % stdout[:120], classes
    if mode == "warning" and lc == "yes" and not stdout:
        return False, "an entry leaves the old span under reportingMode='warning' but nothing was reported", classes
    if lc == "no" and stdout:
        return False, "no entry leaves the old span but something was reported: %r" % stdout[:120], classes
    return True, "", classes


def _pre(ctx):
    t = ctx.self_
    if not snap.is_tier(t):
        return SKIP
    s = snap.tier_snap(t)
    mon = "shift.interval" if s["t"] == "I" else "shift.point"
    off = ctx.arg(0, "offset")
    mode = ctx.arg(1, "reportingMode", "warning")
    if not num(off) or mode not in RMODES:
        REC.skip(mon, "outside-domain-args")
        return SKIP
    if not snap.wellformed_times(s):
        REC.skip(mon, "ill-formed-receiver")
        return SKIP
    return (mon, s, off, mode)


def _post(ctx):
    mon, s, off, mode = ctx.pre
    ok, msg, classes = judge_shift(s, off, mode, ctx.result, ctx.exc, ctx.stdout)
    if ok is None:
        REC.skip(mon, msg)
        return
    REC.outcome(mon, ctx.exc)
    ents = ents_of(s)
    sig = (s["t"], mode, tuple(classes), len(ents), gen.order_type((-off,), ents, s["t"]))
    case = {"call": "tier.editTimestamps", "tier": s, "offset": off, "mode": mode}
    _why = receiver_changed(ctx, s)
    if _why:
        REC.violation(PROP, mon, "editTimestamps", case, _why, ("receiver-changed", "editTimestamps"), {"op": "editTimestamps", "receiver_changed": True})
        return
    if ok:
        REC.held(mon, sig if ents else None, classes, case)
    else:
        REC.violation(PROP, mon, "editTimestamps", case, msg, sig,
                      {"kind": s["t"], "mode": mode, "exc": type(ctx.exc).__name__ if ctx.exc else None, "empty_after": not M.shift(s["t"], ents, s["min"], s["max"], off)[0]})


def _tg_valid(s):
    return s["tiers"] and all(snap.wellformed_times(t) and t["min"] == s["min"] and t["max"] == s["max"] for t in s["tiers"]) and s["min"] is not None and s["min"] >= 0


def _tg_wellformed(s):
    """tiers well-formed and inside the textgrid's span (not necessarily equal to it)"""
    return bool(s["tiers"]) and s["min"] is not None and s["min"] >= 0 and all(
        snap.wellformed_times(t) and t["min"] >= s["min"] and t["max"] <= s["max"] for t in s["tiers"])


def _tg_pre(ctx):
    tg = ctx.self_
    if not snap.is_tg(tg):
        return SKIP
    s = snap.tg_snap(tg)
    off, mode = ctx.arg(0, "offset"), ctx.arg(1, "reportingMode", "warning")
    if not num(off) or mode not in RMODES:
        REC.skip("shift.textgrid", "outside-domain-args")
        return SKIP
    if not _tg_wellformed(s):
        REC.skip("shift.textgrid", "receiver-not-well-formed")
        return SKIP
    if not _tg_valid(s):
        REC.cls("C09:shift.textgrid:tier-narrower-than-its-textgrid")
    return (s, off, mode)


def _tg_post(ctx):
    s, off, mode = ctx.pre
    mon = "shift.textgrid"
    case = {"call": "Textgrid.editTimestamps", "tg": s, "offset": off, "mode": mode}
    sig = ("tg", mode, tuple((t["t"], len(t["entries"]), gen.order_type((-off,), ents_of(t), t["t"])) for t in s["tiers"]))
    mech = {"kind": "TG", "mode": mode, "exc": type(ctx.exc).__name__ if ctx.exc else None,
            "empty_after": any(not M.shift(t["t"], ents_of(t), t["min"], t["max"], off)[0] for t in s["tiers"])}
    scale = M.maxabs(s["max"], off, s["max"] + off)
    lcs = []
    for ts in s["tiers"]:
        exp = M.shift(ts["t"], ents_of(ts), ts["min"], ts["max"], off)[0]
        if not M.representable(exp):
            REC.skip(mon, "unrepresentable-result")
            return
        lcs.append(leave_class(ts["t"], ents_of(ts), ts["min"], ts["max"], off, scale))
    REC.outcome(mon, ctx.exc)
    if mode == "error" and "yes" in lcs:
        if ctx.exc is None or type(ctx.exc).__name__ not in ("OutOfBounds", "TextgridStateAutoModified"):
            REC.violation(PROP, mon, "Textgrid.editTimestamps", case, "an entry leaves the old span under 'error': expected OutOfBounds, got %s" % desc(ctx.result, ctx.exc), sig, mech)
        else:
            REC.held(mon, sig)
        return
    if mode == "error" and "band" in lcs and ctx.exc is not None and core.is_praatio_error(ctx.exc):
        REC.held(mon, sig)
        return
    if ctx.exc is not None:
        REC.violation(PROP, mon, "Textgrid.editTimestamps", case, "raised %s: %s" % (type(ctx.exc).__name__, ctx.exc), sig, mech)
        return
    if not snap.is_tg(ctx.result):
        REC.violation(PROP, mon, "Textgrid.editTimestamps", case, "returned %r" % (ctx.result,), sig, mech)
        return
    r = snap.tg_snap(ctx.result)
    if r["keys"] != s["keys"] or [t["name"] for t in r["tiers"]] != s["keys"]:
        REC.violation(PROP, mon, "Textgrid.editTimestamps", case, "tier names/order %r, expected %r" % (r["keys"], s["keys"]), sig, mech)
        return
    # every tier that has entries is a moved copy - whatever the offset, also 0: were it the receiver's own tier object, the next
    # in-place edit of the result would move an entry of the receiver that the receiver never had (entry-less tiers are known to be
    # handed over as they are, D11)
    shared = [n for n in s["keys"] if len(ctx.self_.getTier(n).entries) and ctx.result.getTier(n) is ctx.self_.getTier(n)]
    if shared:
        REC.violation(PROP, mon, "Textgrid.editTimestamps", case, "the returned textgrid holds the receiver's own tier object(s) %r (offset %r): nothing was moved into a copy" % (shared, off), sig, dict(mech, shared_tier_object=True))
        return
    his, los = [M.F(s["max"])], [M.F(s["min"])]
    for ts in s["tiers"]:
        exp, lo, hi, _ = M.shift(ts["t"], ents_of(ts), ts["min"], ts["max"], off)
        los.append(lo)
        why = check_result_tier(ts, ctx.result.getTier(ts["name"]), [exp], lo, hi, scale)
        if why:
            REC.violation(PROP, mon, "Textgrid.editTimestamps", case, "tier %r: %s" % (ts["name"], why), sig, mech)
            return
        his.append(hi)
    # the span grows (at either end) to contain moved entries and never shrinks
    if not M.num_close(r["min"], min(los), scale) or not M.num_close(r["max"], max(his), scale):
        REC.violation(PROP, mon, "Textgrid.editTimestamps", case, "textgrid span [%r, %r], expected [%s, %s]" % (r["min"], r["max"], M.fmt(min(los)), M.fmt(max(his))), sig, mech)
        return
    if mode == "silence" and ctx.stdout:
        REC.violation(PROP, mon, "Textgrid.editTimestamps", case, "reportingMode='silence' printed %r" % ctx.stdout[:120], sig, mech)
        return
    if mode == "warning" and "yes" in lcs and not ctx.stdout:
        REC.violation(PROP, mon, "Textgrid.editTimestamps", case, "entries leave the old span under 'warning' but nothing was reported", sig, mech)
        return
    REC.held(mon, sig, None, case)


def _app_pre(ctx):
    a, b = ctx.self_, ctx.arg(0, "tier")
    if not (snap.is_tier(a) and snap.is_tier(b)):
        return SKIP
    sa, sb = snap.tier_snap(a), snap.tier_snap(b)
    if not (snap.wellformed_times(sa) and snap.wellformed_times(sb)) or sa["min"] < 0 or sb["min"] < 0:
        REC.skip("append.tier", "ill-formed-operand")
        return SKIP
    return (sa, sb)


def _app_post(ctx):
    sa, sb = ctx.pre
    mon = "append.tier"
    case = {"call": "tier.appendTier", "a": sa, "b": sb}
    sig = ("app", sa["t"], sb["t"], len(sa["entries"]), len(sb["entries"]), sa["max"] == (ents_of(sa)[-1][-2] if sa["entries"] else None))
    mech = {"kind": sa["t"], "exc": type(ctx.exc).__name__ if ctx.exc else None, "b_empty": not sb["entries"], "a_empty": not sa["entries"]}
    REC.outcome(mon, ctx.exc)
    if sa["t"] != sb["t"]:
        if ctx.exc is None or type(ctx.exc).__name__ != "ArgumentError":
            REC.violation(PROP, mon, "appendTier", case, "appending a tier of the other type must raise ArgumentError, got %s" % desc(ctx.result, ctx.exc), sig, mech)
        else:
            REC.held(mon, sig, "C09:append:type-mismatch")
        return
    if not snap.snap_equal(snap.tier_snap(ctx.self_), sa) or not snap.snap_equal(snap.tier_snap(ctx.arg(0, "tier")), sb):
        REC.violation(PROP, mon, "appendTier", case, "appendTier changed one of its operands: A %r -> %r, B %r -> %r" % (
            sa["entries"], snap.tier_snap(ctx.self_)["entries"], sb["entries"], snap.tier_snap(ctx.arg(0, "tier"))["entries"]), sig, mech)
        return
    exp, lo, hi = M.append(sa["t"], ents_of(sa), sa["min"], sa["max"], ents_of(sb), sb["max"])
    if not M.representable(exp):
        REC.skip(mon, "unrepresentable-result")
        return
    if ctx.exc is not None:
        REC.violation(PROP, mon, "appendTier", case, "raised %s: %s" % (type(ctx.exc).__name__, ctx.exc), sig, mech)
        return
    alts = [exp]
    if sa["t"] == "P":  # points that end up at the same time (A's last at A.max, B's first at 0) may come in either order
        alts.append(sorted(exp, key=lambda e: (M.F(e[0]), e[1])))
    why = check_result_tier(sa, ctx.result, alts, lo, hi, M.maxabs(sa["max"], sb["max"], sa["max"] + sb["max"]))
    if why:
        REC.violation(PROP, mon, "appendTier", case, why, sig, mech)
    else:
        REC.held(mon, sig if (sa["entries"] or sb["entries"]) else None, None, case)


def _apptg_pre(ctx):
    a, b = ctx.self_, ctx.arg(0, "tg")
    flag = ctx.arg(1, "onlyMatchingNames")
    if not (snap.is_tg(a) and snap.is_tg(b)) or not isinstance(flag, bool):
        return SKIP
    sa, sb = snap.tg_snap(a), snap.tg_snap(b)
    # a textgrid that has a span and no tiers (yet) is a well-formed operand of a concatenation: it is a stretch of time
    if not all(_tg_wellformed(x) or (not x["tiers"] and num(x["min"]) and num(x["max"]) and 0 <= x["min"] < x["max"]) for x in (sa, sb)):
        REC.skip("append.textgrid", "operand-not-well-formed")
        return SKIP
    ta = {t["name"]: t["t"] for t in sa["tiers"]}
    if any(t["name"] in ta and ta[t["name"]] != t["t"] for t in sb["tiers"]):
        REC.skip("append.textgrid", "same-name-different-type")
        return SKIP
    return (sa, sb, flag)


def _apptg_post(ctx):
    sa, sb, flag = ctx.pre
    mon = "append.textgrid"
    case = {"call": "Textgrid.appendTextgrid", "a": sa, "b": sb, "onlyMatchingNames": flag}
    na, nb = sa["keys"], sb["keys"]
    classes = ["C09:append:only-matching" if flag else "C09:append:all-names"]
    if set(na) == set(nb):
        classes.append("C09:append:names-equal")
    elif set(na) & set(nb):
        classes.append("C09:append:names-overlap")
    else:
        classes.append("C09:append:names-disjoint")
    if any(not t["entries"] for t in sb["tiers"]):
        classes.append("C09:append:empty-tier-in-B")
    if any(t["max"] < sa["max"] for t in sa["tiers"]):
        classes.append("C09:append:A-has-narrower-tier")
    if not sa["tiers"] or not sb["tiers"]:
        classes.append("C09:append:operand-without-tiers")
    if sa["min"] > 0:
        classes.append("C09:append:A-starts-after-0")
    sig = ("apptg", flag, tuple(classes), len(na), len(nb))
    mech = {"kind": "TG", "exc": type(ctx.exc).__name__ if ctx.exc else None, "b_has_empty_tier": any(not t["entries"] for t in sb["tiers"])}
    REC.outcome(mon, ctx.exc)
    if flag:
        names = [n for n in na if n in nb]
    else:
        names = na + [n for n in nb if n not in na]
    if ctx.exc is not None:
        REC.violation(PROP, mon, "appendTextgrid", case, "raised %s: %s" % (type(ctx.exc).__name__, ctx.exc), sig, mech)
        return
    if not snap.is_tg(ctx.result):
        REC.violation(PROP, mon, "appendTextgrid", case, "returned %r" % (ctx.result,), sig, mech)
        return
    r = snap.tg_snap(ctx.result)
    if r["keys"] != names or [t["name"] for t in r["tiers"]] != names:
        REC.violation(PROP, mon, "appendTextgrid", case, "tier names %r, expected %r" % (r["keys"], names), sig, mech)
        return
    scale = M.maxabs(sa["max"], sb["max"], sa["max"] + sb["max"])
    total = M.F(sa["max"]) + M.F(sb["max"])
    if not M.num_close(r["min"], M.F(sa["min"]), scale) or not M.num_close(r["max"], total, scale):
        REC.violation(PROP, mon, "appendTextgrid", case, "textgrid span [%r, %r], expected [%r, %s]" % (r["min"], r["max"], sa["min"], M.fmt(total)), sig, mech)
        return
    da = {t["name"]: t for t in sa["tiers"]}
    db = {t["name"]: t for t in sb["tiers"]}
    for rt in r["tiers"]:
        n = rt["name"]
        ea = ents_of(da[n]) if n in da else []
        eb = ents_of(db[n]) if n in db else []
        kind = (da.get(n) or db.get(n))["t"]
        exp, _, _ = M.append(kind, ea, sa["min"], sa["max"], eb, sb["max"])
        why = M.entries_close(ents_of(rt), exp, scale) if rt["t"] == kind else "tier type changed"
        if why and kind == "P" and rt["t"] == kind:
            why = M.entries_close(ents_of(rt), sorted(exp, key=lambda e: (M.F(e[0]), e[1])), scale)
        if why is None and n in db and (not M.num_close(rt["max"], total, scale) or not M.num_close(rt["min"], M.F(sa["min"]), scale)):
            why = "tier span [%r, %r], expected [%r, %s]" % (rt["min"], rt["max"], sa["min"], M.fmt(total))
        if why:
            REC.violation(PROP, mon, "appendTextgrid", case, "tier %r: %s; observed %r expected %r" % (n, why, rt["entries"], M.fmt_entries(exp)), sig, mech)
            return
    REC.held(mon, sig, classes, case)


_installed = False


def install():
    global _installed
    if _installed:
        return
    _installed = True
    from praatio.data_classes.interval_tier import IntervalTier
    from praatio.data_classes.point_tier import PointTier
    from praatio.data_classes.textgrid import Textgrid
    from praatio.data_classes.textgrid_tier import TextgridTier

    core.attach(IntervalTier, "editTimestamps", "shift.interval", _pre, _post, capture_stdout=True)
    core.attach(PointTier, "editTimestamps", "shift.point", _pre, _post, capture_stdout=True)
    core.attach(Textgrid, "editTimestamps", "shift.textgrid", _tg_pre, _tg_post, capture_stdout=True)
    core.attach(TextgridTier, "appendTier", "append.tier", _app_pre, _app_post)
    core.attach(Textgrid, "appendTextgrid", "append.textgrid", _apptg_pre, _apptg_post)


def roundtrip(t, x):
    s = snap.tier_snap(t)
    ents = ents_of(s)
    if x < 0 or not ents:
        return
    if any(v < 0 for e in ents for v in e[:-1]):
        REC.skip("shift.roundtrip", "entry-below-zero-is-clipped")  # "... when nothing was clipped"
        return
    sig = ("rt", s["t"], len(ents))
    case = {"call": "roundtrip", "tier": s, "x": x}
    try:
        back = t.editTimestamps(x, "silence").editTimestamps(-x, "silence")
    except Exception as e:
        REC.violation(PROP, "shift.roundtrip", "+x;-x", case, "raised %s: %s" % (type(e).__name__, e), sig, {"kind": "rt", "exc": type(e).__name__})
        return
    r = snap.tier_snap(back)
    scale = scale_of(s, x, s["max"] + x)
    why = M.entries_close(ents_of(r), [tuple(M.F(v) if not isinstance(v, str) else v for v in e) for e in ents], scale, 8)
    if why is None and (r["min"] > s["min"] or r["max"] < s["max"]):
        why = "span shrank: [%r, %r] from [%r, %r]" % (r["min"], r["max"], s["min"], s["max"])
    if why:
        REC.violation(PROP, "shift.roundtrip", "+x;-x", case, "shifting by +x then -x does not restore the entries: %s" % why, sig, {"kind": "rt"})
    else:
        REC.held("shift.roundtrip", sig, None, case)


OFFSETS = [0.0, 0.125, -0.125, 0.25, -0.25, 1.0, -1.0, 0.1, -0.1, 1 / 3, -1 / 3, 0.001, -0.001, 5.0, -5.0, 10.0, -10.0]


def rand_tg(rng, names, hi, src, p_empty=0.2, lo=0.0):
    """lo > 0: an excerpt that keeps the time axis of the recording it was cut from"""
    from praatio.data_classes.textgrid import Textgrid

    tg = Textgrid()
    for n, kind in names:
        if rng.random() < p_empty:
            ents = []
        elif kind == "I":
            ents = [(a + lo, b + lo, l) for a, b, l in gen.rand_interval_entries(rng, 4, hi - lo, src=src)]
        else:
            ents = [(t + lo, l) for t, l in gen.rand_point_entries(rng, 4, hi - lo, src=src)]
        if ents and len(tg.tiers) and rng.random() < 0.2:
            # a tier that covers only the stretch it annotates (it starts later / ends earlier than the textgrid that holds it)
            tg.addTier(make_tier(kind, n, ents, rng.choice([lo, ents[0][0]]), rng.choice([hi, ents[-1][-2] if ents[-1][-2] > ents[0][0] else hi])), reportingMode="silence")
            continue
        tg.addTier(make_tier(kind, n, ents, lo, hi), reportingMode="silence")
    return tg


def workload(tier, rng, shard, nshards, work):
    import contextlib
    import io

    sink = io.StringIO()
    with contextlib.redirect_stdout(sink):
        _workload(tier, rng, shard, nshards)

    # objects that carry a history (mutated in place, or produced by earlier operations): the monitors judge every call made on them
    import contextlib as _cl
    import io as _io
    from workloads.histories import run_histories, RefusedEditFrame

    with _cl.redirect_stdout(_io.StringIO()):
        run_histories(rng, (400 if tier == "quick" else 12000) // nshards, observer=RefusedEditFrame(PROP))


def _workload(tier, rng, shard, nshards):
    from praatio.data_classes.textgrid import Textgrid

    # dyadic grid tiers x offsets on the grid x modes
    ncells = 4
    grid_offs = [k * gen.UNIT / 2 for k in range(-10, 11)]
    tiers_ = list(gen.shard_slice(gen.grid_tiers(ncells, 3), shard, nshards))
    for ents in tiers_:
        t = make_tier("I", "g", gen.cells_to_time(ents), 0.0, ncells * gen.UNIT)
        for off in grid_offs:
            call(t.editTimestamps, off, RMODES[(len(ents) + int(off * 16)) % 3])
    for ents in gen.shard_slice(gen.grid_point_tiers(ncells, 2), shard, nshards):
        t = make_tier("P", "p", [(p * gen.UNIT / 2, l) for p, l in ents], 0.0, ncells * gen.UNIT)
        for off in grid_offs:
            call(t.editTimestamps, off, RMODES[(len(ents) + int(off * 16)) % 3])

    # a point tier built from its points alone (no span given): one mark, or several on one instant, make a tier whose span is that
    # instant - a tier like any other when it is shifted or appended to
    from praatio.data_classes.point_tier import PointTier as _PT

    for _q in range((80 if tier == "quick" else 2000) // nshards + 1):
        with piece("span-less point tier"):
            x_ = rng.choice([1.0, 0.5, 2.25, rng.randrange(1, 400) / 100])
            pts = [(x_, "a")] + ([(x_, "b")] if rng.random() < 0.3 else [])
            lone = _PT("lone", pts)
            REC.cls("C09:point-tier-whose-span-is-one-instant")
            for off in (0.0, 0, rng.choice([0.25, -0.25, 1.0]), -x_, -(x_ + 1.0)):
                call(lone.editTimestamps, off, rng.choice(RMODES))
            call(lone.appendTier, _PT("more", [(0.5, "m")], 0.0, 1.0))
    n = (12000 if tier == "quick" else 400000) // nshards
    pool = []
    for i in range(n):
        kind, ents, lo, hi, t = rand_tier(rng, pkind=0.35, nmax=5, neg=0.06)
        if rng.random() < 0.1:
            t = make_tier(kind, "e", [], lo, hi)
            ents = []
        pool.append(t)
        if len(pool) > 30:
            pool.pop(0)
        for _k in range(2):
            r = rng.random()
            if r < 0.3:
                off = rng.choice(OFFSETS)
            elif r < 0.52 and ents and kind == "I":
                # the entry's end, as someone would type it (0.3 for what the tier holds as 0.1 + 0.2) or to the nanosecond: the entry is
                # clipped at zero and a remainder of 1e-17 .. 1e-9 s stays - an interval still
                e = rng.choice(ents)
                off = -rng.choice([float(repr(round(e[1], 9))), e[1] - 1e-9, e[1] * (1 - 1e-15)])
                REC.cls("C09:shift-leaves-a-sliver-above-zero")
            elif r < 0.6 and ents:
                off = -rng.choice(ents)[rng.randrange(0, 2 if kind == "I" else 1)]
            elif r < 0.7:
                off = -(hi + 0.5)
            else:
                off = rng.uniform(-hi, hi)
            call(t.editTimestamps, off, rng.choice(RMODES))
        if i % 5 == 0 and ents:
            # an entry sits exactly on each end of the span; the offset is tiny against the timestamps (1e-13 .. 1e-9 relative) yet
            # many ulps: the entry leaves the span and that has to be reported
            edge = make_tier(kind, "edge", ents, ents[0][0], ents[-1][-2])
            off = rng.choice([-1, 1]) * rng.choice([1e-13, 1e-11, 1e-10, 3e-10, 8e-10]) * max(ents[-1][-2], 1e-3) * rng.choice([1.0, 1.0, 0.37])
            call(edge.editTimestamps, off, rng.choice(RMODES))
            REC.cls("C09:tiny-offset-at-span-edge")
        if i % 4 == 0:
            roundtrip(t, abs(rng.choice(OFFSETS + [rng.uniform(0, 3)])))
        if i % 3 == 0:
            call(t.appendTier, rng.choice(pool))

    ntg = (1500 if tier == "quick" else 50000) // nshards
    universe = [("a", "I"), ("b", "I"), ("c", "P"), ("d", "P"), ("e", "I")]
    for _ in range(ntg):
        _, src = gen.rand_time_source(rng)
        na = rng.sample(universe, rng.randrange(1, 4))
        r = rng.random()
        if r < 0.3:
            nb = list(na)
            rng.shuffle(nb)
        elif r < 0.7:
            nb = rng.sample(universe, rng.randrange(1, 4))
        else:
            nb = [u for u in universe if u not in na][: rng.randrange(1, 3)] or list(na)
        A = rand_tg(rng, na, rng.choice([2.0, 3.5, 5.0]), src, lo=rng.choice([0.0, 0.0, 0.0, 0.5, 1.25]))
        B = rand_tg(rng, nb, rng.choice([1.0, 2.5, 5.0]), src)
        x = rng.random()
        if x < 0.04:
            A = Textgrid(0.0, rng.choice([2.0, 3.5]))  # a stretch of time nothing is annotated in (yet)
        elif x < 0.08:
            B = Textgrid(0.0, rng.choice([1.0, 2.5]))
        if rng.random() < 0.1:
            refused_edits(rng.choice([A, B]), rng)
        if rng.random() < 0.15:
            renamed_elsewhere(rng.choice([A, B]), rng)
        C = call(A.appendTextgrid, B, rng.random() < 0.5)
        if C is not None and len(C.tierNames) and rng.random() < 0.7:
            # chaining: tiers that were only in A end before the combined textgrid does
            nd = rng.sample(universe, rng.randrange(1, 4))
            D = rand_tg(rng, nd, rng.choice([1.0, 2.5]), src)
            call(C.appendTextgrid, D, rng.random() < 0.4)
        r = rng.random()
        off = rng.choice(OFFSETS) if r < 0.5 else rng.uniform(-5, 5)
        call(A.editTimestamps, off, rng.choice(RMODES))
        if rng.random() < 0.1:
            call(A.editTimestamps, rng.choice([0, 0.0, -0.0]), rng.choice(RMODES))  # a shift by nothing is a shift


def replay(v, work):
    c = v["case"]
    if c["call"] == "tier.editTimestamps":
        call(snap.build_tier(c["tier"]).editTimestamps, c["offset"], c["mode"])
    elif c["call"] == "Textgrid.editTimestamps":
        call(snap.build_tg(c["tg"]).editTimestamps, c["offset"], c["mode"])
    elif c["call"] == "tier.appendTier":
        call(snap.build_tier(c["a"]).appendTier, snap.build_tier(c["b"]))
    elif c["call"] == "roundtrip":
        roundtrip(snap.build_tier(c["tier"]), c["x"])
    else:
        call(snap.build_tg(c["a"]).appendTextgrid, snap.build_tg(c["b"]), c["onlyMatchingNames"])


CLASSIFIERS = {}

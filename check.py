#!/venv/bin/python
"""Runner for the praatIO runtime-monitoring checks.

  check.py <Cxx> [--tier quick|thorough] [--seed N]     run one property
  check.py <Cxx> --replay <file>                        re-run one recorded case
  check.py --selftest                                   setup_cmd: environment + model self-tests
  check.py --all [--tier ...]                           run every property (convenience)

Exit codes: 0 held on everything explored (known findings are printed as
KNOWN-FINDING lines); 1 at least one unlisted violation (VIOLATION lines);
2 inconclusive (a deciding monitor did not reach its floor, a worker timed out
or died, a monitor crashed) -- never folded into the other two.
"""
import argparse
import importlib
import json
import os
import random
import shutil
import subprocess
import sys
import time
from collections import Counter
from pathlib import Path

ROOT = Path(__file__).resolve().parent
REPO = Path(os.environ.get("PRAATIO_REPO", "/repo"))
PY = os.environ.get("PRAATIO_PY", "/venv/bin/python")
ALL = ["C%02d" % i for i in range(1, 21)]


PROCESS_ENVIRONMENTS = {
    # shard index (counted from the last shard) -> (name, environment): the same workload under another process environment,
    # since a library may lean on process-wide defaults (locale encoding of open(), the warnings filter)
    1: ("warnings-as-errors", {"PYTHONWARNINGS": "error::UserWarning"}),
    2: ("ascii-locale", {"LC_ALL": "C", "LANG": "C", "PYTHONUTF8": "0", "PYTHONCOERCECLOCALE": "0"}),
}


def child_env(shard=None, nshards=None):
    env = dict(os.environ)
    env["PYTHONHASHSEED"] = "0"
    env["PYTHONDONTWRITEBYTECODE"] = "1"
    env["PYTHONPATH"] = "%s:%s" % (REPO, ROOT)
    env["PRAATIO_VERIF"] = "1"
    for k in ("PYTHONWARNINGS", "PYTHONUTF8", "PYTHONCOERCECLOCALE"):
        env.pop(k, None)
    if shard is not None and nshards and nshards >= 4 and shard >= 0:
        name, extra = PROCESS_ENVIRONMENTS.get(nshards - shard, (None, None))
        if name:
            env.update(extra)
            env["VERIF_PROCESS_ENV"] = name
    return env


def load(prop):
    sys.path.insert(0, str(ROOT))
    return importlib.import_module("checks.%s" % prop.lower())


# ----------------------------------------------------------------------
# worker side
# ----------------------------------------------------------------------
def run_shard(args):
    sys.path.insert(0, str(ROOT))
    import praatio

    assert str(Path(praatio.__file__).resolve()).startswith(str(REPO.resolve())), (
        "praatio imported from %s, not from %s" % (praatio.__file__, REPO)
    )
    from vmon import core

    mod = load(args.prop)
    work = ROOT / ".work" / ("%s-%d-%d" % (args.prop, os.getpid(), args.shard))
    work.mkdir(parents=True, exist_ok=True)
    seed = args.seed * 1000003 + args.shard * 7919 + sum(map(ord, args.prop))
    rng = random.Random(seed)
    status = "ok"
    t0 = time.time()
    core.REC.cls("process-environment:%s" % os.environ.get("VERIF_PROCESS_ENV", "default"))
    try:
        mod.install()
        if args.shard < 0:
            repo_tests_workload(core)
        else:
            mod.workload(args.tier, rng, args.shard, args.nshards, work)
    except BaseException as e:  # a crash of the driver itself
        import traceback

        status = "driver_error: " + "".join(traceback.format_exception(e))[-3000:]
    finally:
        shutil.rmtree(work, ignore_errors=True)
    out = core.REC.dump()
    if status == "ok" and core.REC.aborted:
        status = "driver_error: %d workload piece(s) given up, the first: %s" % (len(core.REC.aborted), core.REC.aborted[0])
    out["status"] = status
    out["shard"] = [args.shard, args.nshards]
    out["wall_s"] = time.time() - t0
    with open(args.out, "w") as fd:
        # (a monitor that put a live object into a case must not cost the shard its verdicts: such an object is written as its repr)
        json.dump(out, fd, default=lambda o: "<unserializable %s>" % repr(o)[:200])


def repo_tests_workload(core):
    """The repository's own test-suite as a workload: every hooked call its tests and examples make is judged by
    the property's monitors (the tests' own assertions are irrelevant here)."""
    import contextlib
    import io

    import pytest

    os.chdir(str(REPO))
    buf = io.StringIO()
    with contextlib.redirect_stdout(buf), contextlib.redirect_stderr(buf):
        rc = pytest.main([str(REPO / "tests"), "-q", "-p", "no:cacheprovider", "-x", "--no-header"])
    core.REC.note("repository test-suite under monitors: pytest exit code %s" % int(rc))
    core.REC.cls("repo-tests-workload-ran")
    if int(rc) != 0:
        core.REC.note("repository tests did not pass under monitors: " + buf.getvalue()[-600:].replace("\n", " | "))


# ----------------------------------------------------------------------
# parent side
# ----------------------------------------------------------------------
def known_findings():
    """Parse KNOWN_FINDINGS.txt -> {prop: [(key, text), ...]} (finding: lines only)."""
    res = {}
    path = ROOT / "KNOWN_FINDINGS.txt"
    if not path.exists():
        return res
    for line in path.read_text().splitlines():
        line = line.strip()
        if not line.startswith("finding:"):
            continue
        head, _, text = line[len("finding:"):].partition("::")
        fields = dict(f.split("=", 1) for f in head.split() if "=" in f)
        res.setdefault(fields.get("property"), []).append((fields.get("key"), text.strip()))
    return res


def run_property(prop, tier, seed, nshards=None, quiet=False):
    mod = load(prop)
    t0 = time.time()
    n = nshards or mod.NSHARDS.get(tier, 8)
    n = max(1, min(n, os.cpu_count() or 1))
    timeout = mod.TIMEOUT.get(tier, 600)
    tmp = ROOT / ".work" / ("run-%s-%d" % (prop, os.getpid()))
    tmp.mkdir(parents=True, exist_ok=True)
    procs = []
    for i in range(n):
        out = tmp / ("shard%d.json" % i)
        cmd = [PY, "-B", str(ROOT / "check.py"), "--shard-worker", prop, "--tier", tier,
               "--seed", str(seed), "--shard", str(i), "--nshards", str(n), "--out", str(out)]
        log = open(tmp / ("shard%d.log" % i), "w")
        procs.append((i, out, subprocess.Popen(cmd, env=child_env(i, n), stdout=log, stderr=subprocess.STDOUT, cwd=str(ROOT)), log))
    if tier == "thorough" or os.environ.get("VERIF_REPO_TESTS") == "1":
        out = tmp / "shard_tests.json"
        cmd = [PY, "-B", str(ROOT / "check.py"), "--shard-worker", prop, "--tier", tier, "--seed", str(seed), "--shard", "-1", "--nshards", str(n), "--out", str(out)]
        log = open(tmp / "shard_tests.log", "w")
        procs.append((-1, out, subprocess.Popen(cmd, env=child_env(), stdout=log, stderr=subprocess.STDOUT, cwd=str(ROOT)), log))
    inconclusive = []
    results = []
    deadline = time.time() + timeout
    for i, out, p, log in procs:
        try:
            p.wait(timeout=max(1, deadline - time.time()))
        except subprocess.TimeoutExpired:
            p.kill()
            p.wait()
            inconclusive.append("shard %d hit the %ds wall-clock watchdog" % (i, timeout))
            continue
        finally:
            log.close()
        if p.returncode != 0 or not out.exists():
            tail = (tmp / ("shard%d.log" % i if i >= 0 else "shard_tests.log")).read_text()[-1500:]
            inconclusive.append("shard %d died rc=%s: %s" % (i, p.returncode, tail))
            continue
        results.append(json.loads(out.read_text()))
    shutil.rmtree(tmp, ignore_errors=True)
    try:
        (ROOT / ".work").rmdir()
    except OSError:
        pass

    # ---- merge ----
    M = {k: Counter() for k in ("evals", "skips", "classes", "outcomes", "calls", "notes", "options")}
    option_domains = {}
    sigs, states, transitions = set(), set(), set()
    samples = {}
    violations = []
    vcount = 0
    for r in results:
        for k in M:
            M[k].update(r.get(k, {}))
        option_domains.update(r.get("option_domains", {}))
        sigs.update(r["sigs"])
        states.update(r.get("states", []))
        transitions.update(r.get("transitions", []))
        for c, ss in r["samples"].items():
            samples.setdefault(c, [])
            if len(samples[c]) < 2:
                samples[c].extend(ss[: 2 - len(samples[c])])
        for v_ in r["violations"]:
            v_["shard"] = r.get("shard")  # with tier and seed: the part of the workload (and the PRNG stream) that produced the case
        violations.extend(r["violations"])
        vcount += r["violation_count"]
        if r["status"] != "ok":
            inconclusive.append(r["status"])
        for me in r["monitor_errors"]:
            inconclusive.append("monitor error in %s: %s" % (me["monitor"], me["error"][-800:]))

    # ---- floors ----
    floors = mod.floors(tier)
    for mon, need in floors.get("evals", {}).items():
        if M["evals"].get(mon, 0) < need:
            inconclusive.append("monitor %s judged %d cases, floor %d" % (mon, M["evals"].get(mon, 0), need))
    for c, need in floors.get("classes", {}).items():
        if M["classes"].get(c, 0) < need:
            inconclusive.append("class %s observed %d times, floor %d" % (c, M["classes"].get(c, 0), need))

    # ---- classify violations ----
    listed = known_findings().get(prop, [])
    classifiers = getattr(mod, "CLASSIFIERS", {})
    known_hits = Counter()
    unlisted = []
    for v in violations:
        hit = None
        for key, text in listed:
            pred = classifiers.get(key)
            try:
                if pred is not None and pred(v):
                    hit = (key, text)
                    break
            except Exception:
                pass
        if hit:
            known_hits[hit] += 1
        else:
            unlisted.append(v)

    lines = []
    for (key, text), cnt in sorted(known_hits.items()):
        lines.append("KNOWN-FINDING: property=%s %s [key=%s, %d case(s) this run]" % (prop, text, key, cnt))
    rdir = Path(os.environ.get("VERIF_REPLAY_DIR", str(ROOT / "replays"))) / prop
    import re as _re
    from vmon.core import h64

    groups = {}
    for v in unlisted:
        gkey = (v["monitor"], json.dumps(v.get("mech") or {}, sort_keys=True, default=str), _re.sub(r"[-+]?\d[\d.e+-]*", "#", str(v["msg"]))[:70])
        groups.setdefault(gkey, []).append(v)
    shown = 0
    for gkey, vs in groups.items():
        if shown >= 12:
            lines.append("  ... %d further violation group(s) not written" % (len(groups) - shown))
            break
        shown += 1
        for v in sorted(vs, key=lambda x: len(json.dumps(x["case"], default=str)))[:2]:
            rdir.mkdir(parents=True, exist_ok=True)
            body = json.dumps({"property": prop, "tier": tier, "seed": seed, **v}, sort_keys=True, default=str)
            path = rdir / ("%016x.json" % h64(body))
            path.write_text(body)
            lines.append("VIOLATION property=%s replay=%s" % (prop, path))
            lines.append("  monitor=%s op=%s (%d similar) :: %s" % (v["monitor"], v["op"], len(vs), str(v["msg"])[:260]))

    wall = time.time() - t0
    evaluations = sum(M["evals"].values())
    sample_list = []
    for c in sorted(samples):
        for s in samples[c][:1]:
            sample_list.append({"class": c, "case": s})
    sample_list = sample_list[:24] or [{"class": "none", "case": None}]
    evidence = {
        "property_id": prop,
        "tier": tier,
        "seed": seed,
        "level": "exploration",
        "coverage": {
            "evaluations": evaluations,
            "distinct_nontrivial": len(sigs),
            "rule": mod.RULE,
            "samples": sample_list,
            "exhaustive": bool(getattr(mod, "EXHAUSTIVE", {}).get(tier, False)),
            "exhaustive_domain": getattr(mod, "EXHAUSTIVE_DOMAIN", {}).get(tier, ""),
            "monitor_evaluations": dict(M["evals"]),
            "monitor_skips": dict(M["skips"]),
            "classes_observed": dict(M["classes"]),
            "outcomes": dict(M["outcomes"]),
            "hooked_calls_seen": dict(M["calls"]),
            "option_values_judged": dict(M["options"]),
            "option_values_never_judged": sorted("%s=%s)" % (k[:-1], v) for k, dom in option_domains.items() for v in dom
                                                 if not M["options"].get("%s=%s)" % (k[:-1], v))),
            "distinct_states": len(states),
            "distinct_transitions": len(transitions),
            "notes": dict(M["notes"]),
            "known_finding_hits": {k[0]: c for k, c in known_hits.items()},
            "violating_cases": vcount,
            "shards": n,
            "inconclusive_reasons": inconclusive[:10],
            "verdict": "violated" if unlisted else ("inconclusive" if inconclusive else "held on what was observed"),
        },
        "assumptions": mod.ASSUMPTIONS,
        "wall_s": round(wall, 2),
        "violations": len(unlisted),
    }
    evdir = Path(os.environ.get("VERIF_EVIDENCE_DIR", str(ROOT / "evidence")))
    evdir.mkdir(parents=True, exist_ok=True)
    (evdir / ("%s.json" % prop)).write_text(json.dumps(evidence, indent=1, sort_keys=True, default=str) + "\n")

    for ln in lines:
        print(ln)
    if unlisted:
        rc = 1
    elif inconclusive:
        for r in inconclusive[:8]:
            print("INCONCLUSIVE property=%s reason=%s" % (prop, r.replace("\n", " | ")[:600]))
        rc = 2
    else:
        rc = 0
    if not quiet:
        print("%s tier=%s seed=%d: %d cases judged by monitors (%d distinct non-trivial signatures), "
              "%d violating case(s) of which %d unlisted, %d known-finding hit(s); %.1fs on %d shards -> exit %d"
              % (prop, tier, seed, evaluations, len(sigs), vcount, len(unlisted), sum(known_hits.values()), wall, n, rc))
    return rc


def replay(prop, path):
    sys.path.insert(0, str(ROOT))
    os.environ.setdefault("PYTHONHASHSEED", "0")
    sys.path.insert(0, str(REPO))
    v = json.loads(Path(path).read_text())
    want = v.get("process_env") or "default"
    if want != os.environ.get("VERIF_PROCESS_ENV", "default") and not os.environ.get("VERIF_REPLAY_CHILD"):
        # the case was observed under another process environment: replay it there
        env = child_env()
        for _k, (name, extra) in PROCESS_ENVIRONMENTS.items():
            if name == want:
                env.update(extra)
                env["VERIF_PROCESS_ENV"] = name
        env["VERIF_REPLAY_CHILD"] = "1"
        return subprocess.call([PY, "-B", str(ROOT / "check.py"), prop, "--replay", str(path)], env=env, cwd=str(ROOT))
    mod = load(prop)
    from vmon import core

    mod.install()
    work = ROOT / ".work" / ("replay-%d" % os.getpid())
    work.mkdir(parents=True, exist_ok=True)
    crashed = None
    try:
        if v.get("case", {}).get("call") == "refused-edit":
            from workloads.histories import replay_refused_edit

            replay_refused_edit(v)
        else:
            mod.replay(v, work)
    except Exception as e:  # the recorded input cannot be rebuilt on this tree (e.g. it was itself the product of an earlier violation)
        crashed = "%s: %s" % (type(e).__name__, str(e)[:300])
    finally:
        shutil.rmtree(work, ignore_errors=True)
    vs = core.REC.violations
    if not vs and v.get("shard") and not os.environ.get("VERIF_REPLAY_CASE_ONLY"):
        # the single case does not violate (any more).  What was recorded may depend on what happened to the objects before the
        # call (caches, shared state, an earlier edit): re-run the part of the workload that produced it - same tier, seed, shard
        # and process environment, hence the same PRNG stream - and look for a violation by the same monitor.
        again = rerun_shard(prop, v)
        if again:
            for x in again[:3]:
                print("REPLAY violated (re-running shard %d/%d of the %s workload, seed %s): monitor=%s op=%s :: %s" % (
                    v["shard"][0], v["shard"][1], v.get("tier"), v.get("seed"), x["monitor"], x["op"], str(x["msg"])[:400]))
            print("VIOLATION property=%s replay=%s" % (prop, path))
            return 1
    if crashed and not vs:
        print("REPLAY inconclusive: the recorded case could not be re-enacted on this tree (%s)" % crashed)
        print("INCONCLUSIVE property=%s reason=replay could not be re-enacted" % prop)
        return 2
    if vs:
        for x in vs[:5]:
            print("REPLAY violated: monitor=%s op=%s :: %s" % (x["monitor"], x["op"], x["msg"]))
        print("VIOLATION property=%s replay=%s" % (prop, path))
        return 1
    if core.REC.monitor_errors:
        print("INCONCLUSIVE property=%s reason=monitor error %s" % (prop, core.REC.monitor_errors[0]["error"][-500:]))
        return 2
    if not sum(core.REC.evals.values()):
        print("REPLAY inconclusive: re-enacting the recorded case reached no monitor")
        print("INCONCLUSIVE property=%s reason=replay reached no monitor" % prop)
        return 2
    print("REPLAY held: %d monitor evaluation(s), no violation" % sum(core.REC.evals.values()))
    return 0


def rerun_shard(prop, v):
    """-> the violations by the recorded monitor that shard (tier, seed, shard, nshards) of the workload produces on this tree"""
    i, n = v["shard"]
    tmp = ROOT / ".work" / ("replay-shard-%d" % os.getpid())
    tmp.mkdir(parents=True, exist_ok=True)
    out = tmp / "shard.json"
    cmd = [PY, "-B", str(ROOT / "check.py"), "--shard-worker", prop, "--tier", str(v.get("tier") or "quick"), "--seed", str(v.get("seed") or 0),
           "--shard", str(i), "--nshards", str(n), "--out", str(out)]
    try:
        env = child_env(i, n) if i >= 0 else child_env()
        env.pop("VERIF_REPLAY_CHILD", None)
        subprocess.run(cmd, env=env, cwd=str(ROOT), stdout=subprocess.DEVNULL, stderr=subprocess.DEVNULL, timeout=3600)
        r = json.loads(out.read_text())
    except Exception:
        return []
    finally:
        shutil.rmtree(tmp, ignore_errors=True)
    listed = known_findings().get(prop, [])
    classifiers = getattr(load(prop), "CLASSIFIERS", {})

    def known(x):
        for key, _text in listed:
            try:
                if classifiers.get(key) is not None and classifiers[key](x):
                    return True
            except Exception:
                pass
        return False

    same = [x for x in r.get("violations", []) if x["monitor"] == v.get("monitor") and not known(x)]
    return sorted(same, key=lambda x: (x.get("mech") != v.get("mech"), x.get("op") != v.get("op")))


def selftest():
    sys.path.insert(0, str(ROOT))
    sys.path.insert(0, str(REPO))
    import praatio

    assert str(Path(praatio.__file__).resolve()).startswith(str(REPO.resolve())), praatio.__file__
    assert sys.version_info[:2] >= (3, 8)
    from models import selftest as st

    n = st.run(REPO)
    man = json.loads((ROOT / "MANIFEST.json").read_text())
    assert man["version"] == 1
    print("selftest ok: praatio from %s, %d model self-checks passed" % (praatio.__file__, n))
    return 0


def main():
    for stream in (sys.stdout, sys.stderr):
        try:
            stream.reconfigure(errors="backslashreplace")  # messages quote labels; the terminal / pipe may be ASCII-only
        except Exception:
            pass
    ap = argparse.ArgumentParser()
    ap.add_argument("prop", nargs="?")
    ap.add_argument("--tier", default=os.environ.get("VERIF_TIER", "quick"), choices=["quick", "thorough"])
    ap.add_argument("--seed", type=int, default=int(os.environ.get("VERIF_SEED", "0") or 0))
    ap.add_argument("--replay")
    ap.add_argument("--selftest", action="store_true")
    ap.add_argument("--all", action="store_true")
    ap.add_argument("--shards", type=int)
    ap.add_argument("--shard-worker", dest="worker")
    ap.add_argument("--shard", type=int, default=0)
    ap.add_argument("--nshards", type=int, default=1)
    ap.add_argument("--out")
    a = ap.parse_args()
    if a.worker:
        a.prop = a.worker
        run_shard(a)
        return 0
    if a.selftest:
        return selftest()
    if a.all:
        worst = 0
        for p in ALL:
            if (ROOT / "checks" / ("%s.py" % p.lower())).exists():
                worst = max(worst, run_property(p, a.tier, a.seed, a.shards))
        return worst
    if not a.prop:
        ap.error("property id required")
    if a.replay:
        return replay(a.prop, a.replay)
    return run_property(a.prop, a.tier, a.seed, a.shards)


if __name__ == "__main__":
    sys.exit(main())
